(* C01 - the node graph stays a well-formed tree after any mutation history.
   Statements only; proofs are in theories/Mut/{SurgeryFacts,MachineFacts,PreserveSteps,
   PreserveOps,PreserveSort,PreserveCopy,PreserveMore,Invariant}.v.

   [WFw w] (theories/Mut/WF.v): every tree state of the world satisfies [WF]
   (node identities unique, 0 never used, the registry is a permutation of the
   nodes of the forest, the clone index has one non-empty group per data_id and
   lists exactly the nodes by their CURRENT data_id, no two siblings - top level
   included - with the same data_id), no node occurs in two trees, and the
   allocator is ahead of every node.  Parent pointers are derived from the
   forest in the model ("exactly one parent, once in its child list, never its
   own ancestor" hold by construction); the correspondence compares them with
   the implementation's [_parent]/[_children]/[_tree] after every step. *)
From Coq Require Import List ZArith Bool Arith Permutation.
From NT Require Import Sx Rose Surgery Machine WF PreserveOps PreserveSort PreserveCopy PreserveMore Invariant.
Import ListNotations.

(* ---- the checker used by the correspondence decides WF ---- *)
Theorem C01_checker_sound : forall w, wf_world_b w = true <-> WFw w.
Proof. exact wf_world_b_WFw. Qed.
Print Assumptions C01_checker_sound.

Theorem C01_empty_world : WFw empty_world.
Proof. exact WFw_empty. Qed.
Print Assumptions C01_empty_world.

(* ---- one theorem per operation, for ALL arguments, error exits included ---- *)
Theorem C01_step_add : forall w ti p d explicit k b, WFw w -> WFw (snd (op_add w ti p d explicit k b)).
Proof. exact WFw_op_add. Qed.
Print Assumptions C01_step_add.

Theorem C01_step_shortcut : forall w ti n how d explicit k, WFw w -> WFw (snd (op_shortcut w ti n how d explicit k)).
Proof. exact WFw_op_shortcut. Qed.
Print Assumptions C01_step_shortcut.

Theorem C01_step_remove : forall w ti n keep wc, WFw w -> keep && wc = false -> WFw (snd (op_remove w ti n keep wc)).
Proof. exact WFw_op_remove. Qed.
Print Assumptions C01_step_remove.

Theorem C01_step_remove_children : forall w ti n, WFw w -> WFw (snd (op_remove_children w ti n)).
Proof. exact WFw_op_remove_children. Qed.
Print Assumptions C01_step_remove_children.

Theorem C01_step_move : forall w ti n tti target b, WFw w -> WFw (snd (op_move w ti n tti target b)).
Proof. exact WFw_op_move. Qed.
Print Assumptions C01_step_move.

Theorem C01_step_sort : forall w ti p k rev deep, WFw w -> WFw (snd (op_sort w ti p k rev deep)).
Proof. exact WFw_op_sort. Qed.
Print Assumptions C01_step_sort.

Theorem C01_step_meta : forall w ti n o, WFw w -> WFw (snd (op_meta w ti n o)).
Proof. exact WFw_op_meta. Qed.
Print Assumptions C01_step_meta.

Theorem C01_step_add_node : forall w ti p sti src explicit k b deep,
  WFw w -> WFw (snd (op_add_node w ti p sti src explicit k b deep)).
Proof. exact WFw_op_add_node. Qed.
Print Assumptions C01_step_add_node.

Theorem C01_step_add_tree : forall w ti p sti b deep, WFw w -> WFw (snd (op_add_tree w ti p sti b deep)).
Proof. exact WFw_op_add_tree. Qed.
Print Assumptions C01_step_add_tree.

Theorem C01_step_copy_to : forall w sti src ti target add_self b deep,
  WFw w -> WFw (snd (op_copy_to w sti src ti target add_self b deep)).
Proof. exact WFw_op_copy_to. Qed.
Print Assumptions C01_step_copy_to.

Theorem C01_step_tree_copy : forall w sti, WFw w -> WFw (snd (op_tree_copy w sti)).
Proof. exact WFw_op_tree_copy. Qed.
Print Assumptions C01_step_tree_copy.

Theorem C01_step_node_copy : forall w sti src add_self, WFw w -> WFw (snd (op_node_copy w sti src add_self)).
Proof. exact WFw_op_node_copy. Qed.
Print Assumptions C01_step_node_copy.

Theorem C01_step_clear : forall w ti, WFw w -> WFw (snd (op_clear w ti)).
Proof. exact WFw_op_clear. Qed.
Print Assumptions C01_step_clear.

Theorem C01_step_del : forall w ti k, WFw w -> WFw (snd (op_del w ti k)).
Proof. exact WFw_op_del. Qed.
Print Assumptions C01_step_del.

Theorem C01_step_filter : forall w ti n vd, WFw w -> WFw (snd (op_filter w ti n vd)).
Proof. exact WFw_op_filter. Qed.
Print Assumptions C01_step_filter.

Theorem C01_step_from_dict : forall w ti p items, WFw w -> WFw (snd (op_from_dict w ti p items)).
Proof. exact WFw_op_from_dict. Qed.
Print Assumptions C01_step_from_dict.

Theorem C01_step_tree_from_dict : forall w items, WFw w -> WFw (snd (op_tree_from_dict w items)).
Proof. exact WFw_op_tree_from_dict. Qed.
Print Assumptions C01_step_tree_from_dict.

(* ---- every step, every history ---- *)
(* the full statement *)
Definition C01_full_statement : Prop := forall w o, WFw w -> WFw (snd (step w o)).
Definition C01_history_full_statement : Prop := forall ops w, WFw w -> WFw (run ops w).

(* proved for the operations selected by [covered] (all but set_data / rename and
   remove(keep_children=True, with_clones=True)) *)
Theorem C01_step_partial : forall w o, covered o = true -> WFw w -> WFw (snd (step w o)).
Proof. exact WFw_step_partial. Qed.
Print Assumptions C01_step_partial.

Theorem C01_history_partial : forall ops w, forallb covered ops = true -> WFw w -> WFw (run ops w).
Proof. exact WFw_run_partial. Qed.
Print Assumptions C01_history_partial.

(* ---- corollaries spelled out ---- *)
(* the tree's node count (= len(_node_by_id)) is the number of reachable nodes *)
Theorem C01_count : forall t, WF t ->
  length (reg t) = length (ids (forest_of t)) /\ length (ids (forest_of t)) = size_f (forest_of t).
Proof. exact WF_count. Qed.
Print Assumptions C01_count.

Theorem C01_node_ids_unique : forall w, WFw w -> NoDup (all_ids w).
Proof. exact ww_disj. Qed.
Print Assumptions C01_node_ids_unique.

Theorem C01_removed_gone : forall w ti n t s,
  WFw w -> get_tree w ti = Some t -> get_node n (forest_of t) = Some s ->
  exists t', get_tree (snd (op_remove w ti n false false)) ti = Some t' /\ fst (op_remove w ti n false false) = Ok [] /\
    forall m, In m (ids_t s) -> ~ In m (ids (forest_of t')) /\ ~ In m (reg t').
Proof. exact removed_branch_gone. Qed.
Print Assumptions C01_removed_gone.

Theorem C01_removed_children_gone : forall w ti n t ch,
  WFw w -> get_tree w ti = Some t -> children_of n (forest_of t) = Some ch ->
  exists t', get_tree (snd (op_remove_children w ti n)) ti = Some t' /\
    forall m, In m (ids ch) -> ~ In m (ids (forest_of t')) /\ ~ In m (reg t').
Proof. exact removed_children_gone. Qed.
Print Assumptions C01_removed_children_gone.

(* ---- non-vacuity: a reachable world with two trees, clones, a moved branch, a deep copy ---- *)
Definition c01_dd (z : Z) : dat := D z z z false [z].
Definition c01_ops : list op :=
  [ONewTree false None;
   OAdd 0 0 (c01_dd 10) None None BNone;            (* 1 *)
   OAdd 0 1 (c01_dd 20) None None BNone;            (* 2 under 1 *)
   OAdd 0 1 (c01_dd 30) None None BTrue;            (* 3 under 1, first *)
   OAdd 0 0 (c01_dd 20) None None BNone;            (* 4: clone of 2 at top level *)
   OAdd 0 4 (c01_dd 10) (Some (DStr [120%Z])) None BNone;  (* 5 under 4, explicit id *)
   OMove 0 3 0 4 BNone;                             (* 3 moves below 4 *)
   OAddNode 0 0 0 1 None None BNone (Some true);    (* refused: same parent *)
   OTreeCopy 0;                                     (* tree 1 = deep copy *)
   OCopyTo 0 4 1 0 true BNone true;                 (* refused or copied into tree 1 *)
   ORemove 0 2 false false;
   OSort 0 0 [(1, Some [2%Z]); (4, Some [1%Z])] false false;
   OMeta 0 1 (MSet [7%Z] (Some (A 1%Z)))].
Example C01_nonvacuous :
  wf_world_b (run c01_ops empty_world) = true /\ forallb covered c01_ops = true /\
  length (trees (run c01_ops empty_world)) = 2 /\ 6 <= length (all_ids (run c01_ops empty_world)).
Proof. vm_compute. repeat split. repeat constructor. Qed.
