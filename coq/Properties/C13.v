(* C13 - refused or failing operations do not corrupt the tree.
   Statements only; proofs are in theories/Mut/RefusalC13.v (single-phase
   operations), RefusalMulti.v (add(tree), copy_to), C13Summary.v and Faults.v (escaped
   callback exceptions, read-only copies) - all about the mutation machine
   theories/Mut/Machine.v, which harness/props/C13.py ties to the
   implementation after every step of every generated history.

   Vocabulary.  [step w o] returns a result and the next world; [Err e] is an
   exception of class e escaping from the public method.  [library_error e]:
   the classes the library raises as refusals - UniqueConstraintError (EUnique),
   AmbiguousMatchError (EAmbiguous), ValueError for an invalid position or
   target (EValue), NotImplementedError for an unsupported move (ENotImpl).
   ECrash is an exception escaping from a user callback: the callbacks are
   tables that may answer "raise" for any argument ([calcspec] for
   calc_data_id, [keyt] for sort keys, [verdicts] for filter predicates) and
   every theorem quantifies over the whole table, so "the k-th invocation
   raises" is covered for all k at once.  [sx_world] is the observable state
   of every tree: forest (identity, data, data_id, kind, meta, child order),
   node registry, clone index.  [WFw] is the C01-C03 invariant.  [rows 0 f] is
   the pre-order list of (parent id, node id, payload) of a forest. *)
From Coq Require Import List ZArith Bool Arith Permutation.
From NT Require Import Sx Rose Surgery SurgeryFacts Machine WF RefusalC13 RefusalMulti Faults C13Summary.
Import ListNotations.

(* ================= refusal ================= *)

(* every operation, every argument, every well-formed world *)
Theorem C13_refusal : forall w o e,
  WFw w -> fst (step w o) = Err e -> library_error e = true ->
  sx_world (snd (step w o)) = sx_world w.
Proof. intros w o e H E L. apply trees_sx_world. exact (refusal_all w o e H E L). Qed.
Print Assumptions C13_refusal.

(* what is left behind: the same trees, a well-formed world, an allocator that only moved forward *)
Theorem C13_refusal_summary : forall w o e,
  WFw w -> fst (step w o) = Err e -> library_error e = true ->
  trees (snd (step w o)) = trees w /\ next w <= next (snd (step w o)) /\ WFw (snd (step w o)).
Proof. exact refusal_summary. Qed.
Print Assumptions C13_refusal_summary.

(* no hypothesis left: every world that ANY history of operations reaches from the empty world *)
Theorem C13_refusal_reachable : forall ops o e,
  fst (step (run ops empty_world) o) = Err e -> library_error e = true ->
  sx_world (run (ops ++ [o]) empty_world) = sx_world (run ops empty_world).
Proof. exact refused_step_invisible. Qed.
Print Assumptions C13_refusal_reachable.

(* stronger for every operation that validates in one phase (all but add(tree) and
   copy_to(add_self=False)): ANY world, well-formed or not *)
Theorem C13_refusal_single : forall w o e,
  multi_source o = false -> fst (step w o) = Err e -> library_error e = true ->
  sx_world (snd (step w o)) = sx_world w.
Proof. intros w o e M E L. apply trees_sx_world. apply (refusal_single w o e M E). now apply library_not_crash. Qed.
Print Assumptions C13_refusal_single.

(* the hypothesis of C13_refusal is needed for the two multi-source copies: in a world
   that violates C03 (two top nodes of the source with one data_id) add(tree) is refused
   after the first copy was made *)
Definition c13_bad : world :=
  W [TS [] [] [] false None;
     TS [T 1 (I 1 1 5 true [1%Z] (DInt 5) None []) []; T 2 (I 2 2 5 true [2%Z] (DInt 5) None []) []]
        [1; 2] [(DInt 5, [1; 2])] false None] 3.
Theorem C13_refusal_needs_invariant :
  wf_world_b c13_bad = false /\
  fst (step c13_bad (OAddTree 0 0 1 BNone None)) = Err EUnique /\
  sx_world (snd (step c13_bad (OAddTree 0 0 1 BNone None))) <> sx_world c13_bad.
Proof. split; [reflexivity|]. split; [reflexivity|]. intros X. vm_compute in X. discriminate X. Qed.
Print Assumptions C13_refusal_needs_invariant.

(* every other way an operation can fail by itself (TypeError for an untyped source,
   KeyError of `del`, the assertion of from_dict, a reference the model rejects) and
   calc_data_id raising inside add / set_data / rename / del / from_dict: unchanged too.
   The only exits that keep a partial effect are a raising sort key and a raising
   filter predicate (below). *)
Theorem C13_error_unchanged : forall w o e,
  multi_source o = false -> partial_on_crash o = false -> fst (step w o) = Err e ->
  sx_world (snd (step w o)) = sx_world w.
Proof. intros w o e M P E. apply trees_sx_world. exact (error_single w o e M P E). Qed.
Print Assumptions C13_error_unchanged.

(* ================= escaped callback exceptions ================= *)

(* whatever the tables answer: the world stays well-formed (C01-C03) *)
Theorem C13_callback : forall w o,
  WFw w -> fst (step w o) = Err ECrash -> WFw (snd (step w o)).
Proof. exact callback_fault_WFw. Qed.
Print Assumptions C13_callback.

(* ECrash really is the class of escaped callback exceptions: only an operation that invokes a
   user callback (calc_data_id: add, shortcuts, set_data, rename, del, from_dict; sort key;
   filter predicate) can end with it *)
Theorem C13_crash_only_with_callback : forall w o,
  fst (step w o) = Err ECrash -> may_invoke_callback o = true.
Proof. exact crash_only_with_callback. Qed.
Print Assumptions C13_crash_only_with_callback.

(* ... as after any other failure *)
Theorem C13_error_wf : forall w o e, WFw w -> fst (step w o) = Err e -> WFw (snd (step w o)).
Proof. exact error_WFw. Qed.
Print Assumptions C13_error_wf.

(* calc_data_id (add, shortcuts, set_data, rename, del, from_dict): nothing changed *)
Theorem C13_calc_fault_unchanged : forall w o,
  takes_callback o = true -> partial_on_crash o = false -> fst (step w o) = Err ECrash ->
  sx_world (snd (step w o)) = sx_world w.
Proof. intros w o T P E. apply trees_sx_world. exact (calc_fault_unchanged w o T P E). Qed.
Print Assumptions C13_calc_fault_unchanged.

(* sort key, any table, Ok and ECrash exits alike: registry and index are untouched, the
   rows of the forest are permuted - every node keeps parent, data, data_id, kind, meta,
   every child list is a permutation of what it was; no other tree is touched *)
Theorem C13_sort_fault_effect : forall w ti p k rv dp t,
  get_tree w ti = Some t ->
  exists t', get_tree (snd (op_sort w ti p k rv dp)) ti = Some t'
    /\ reg t' = reg t /\ idx t' = idx t
    /\ Permutation (rows 0 (forest_of t)) (rows 0 (forest_of t'))
    /\ (forall tj, tj <> ti -> get_tree (snd (op_sort w ti p k rv dp)) tj = get_tree w tj)
    /\ next (snd (op_sort w ti p k rv dp)) = next w.
Proof. exact sort_effect. Qed.
Print Assumptions C13_sort_fault_effect.

(* filter predicate, any table, Ok and ECrash exits alike: nodes are only removed - every
   remaining row (parent, node, payload) is a row of the tree before *)
Theorem C13_filter_fault_effect : forall w ti n vd t,
  get_tree w ti = Some t ->
  exists t', get_tree (snd (op_filter w ti n vd)) ti = Some t'
    /\ incl (rows 0 (forest_of t')) (rows 0 (forest_of t))
    /\ (forall tj, tj <> ti -> get_tree (snd (op_filter w ti n vd)) tj = get_tree w tj)
    /\ next (snd (op_filter w ti n vd)) = next w.
Proof. exact filter_effect. Qed.
Print Assumptions C13_filter_fault_effect.

(* ================= read-only ================= *)
(* Tree.copy / Node.copy: every tree that existed keeps its state (the other read-only
   operations are pure functions of the forest in the model - Layer A - and are tied to
   the implementation by the snapshot oracle of harness/props/C13.py) *)
Theorem C13_tree_copy_pure : forall w sti ti, ti < length (trees w) ->
  get_tree (snd (op_tree_copy w sti)) ti = get_tree w ti.
Proof. exact tree_copy_pure. Qed.
Print Assumptions C13_tree_copy_pure.

Theorem C13_node_copy_pure : forall w sti src add_self ti, ti < length (trees w) ->
  get_tree (snd (op_node_copy w sti src add_self)) ti = get_tree w ti.
Proof. exact node_copy_pure. Qed.
Print Assumptions C13_node_copy_pure.

(* add_child(node) / add(tree) / copy_to: every tree but the target - in particular a source
   in another tree - keeps its state, whether the copy succeeds, is refused or fails *)
Theorem C13_add_node_source_pure : forall w ti p sti src e k b deep tj, tj <> ti ->
  get_tree (snd (op_add_node w ti p sti src e k b deep)) tj = get_tree w tj.
Proof. exact add_node_other. Qed.
Print Assumptions C13_add_node_source_pure.

Theorem C13_add_tree_source_pure : forall w ti p sti b deep tj, tj <> ti ->
  get_tree (snd (op_add_tree w ti p sti b deep)) tj = get_tree w tj.
Proof. exact add_tree_source_pure. Qed.
Print Assumptions C13_add_tree_source_pure.

Theorem C13_copy_to_source_pure : forall w sti src ti target add_self b deep tj, tj <> ti ->
  get_tree (snd (op_copy_to w sti src ti target add_self b deep)) tj = get_tree w tj.
Proof. exact copy_to_source_pure. Qed.
Print Assumptions C13_copy_to_source_pure.

(* ================= non-vacuity ================= *)
(* the error classes, numbered as harness/common.py err_class (mut.LIB_ERRORS = 1 2 3 5) *)
Example C13_library_error_classes :
  map library_error [EUnique; EAmbiguous; EValue; EKey; ENotImpl; EAssert; EType; ECrash; EModel]
  = [true; true; true; false; true; false; false; false; false]
  /\ [EUnique; EAmbiguous; EValue; EKey; ENotImpl; EAssert; EType; ECrash] = [1; 2; 3; 4; 5; 6; 7; 8].
Proof. split; reflexivity. Qed.

Definition c13_dd (z : Z) : dat := D z z z true [z].
Definition c13_w : world :=
  run [ONewTree false None;
       OAdd 0 0 (c13_dd 1) None None BNone;      (* 1 *)
       OAdd 0 1 (c13_dd 2) None None BNone;      (* 2 under 1 *)
       OAdd 0 1 (c13_dd 3) None None BNone;      (* 3 under 1 *)
       OAdd 0 0 (c13_dd 2) None None BNone;      (* 4: clone of 2, top level *)
       ONewTree true None;
       OAdd 1 0 (c13_dd 1) None None BNone;      (* 5 in the typed tree 1 *)
       ONewTree false (Some [(9%Z, None)])]      (* tree 2: calc_data_id raises on object 9 *)
      empty_world.

(* every class of refusal occurs in a well-formed world, on every route *)
Definition c13_refused : list (op * nat) :=
  [(OAdd 0 1 (c13_dd 2) None None BNone, EUnique);                    (* colliding data *)
   (OAdd 0 1 (c13_dd 9) None None (BNode 4), EValue);                 (* before = node of another parent *)
   (OShort 0 2 SAppendSibling (c13_dd 3) None None, EUnique);
   (OAddNode 0 1 0 4 None None BNone None, EUnique);                  (* copy of the clone below 1 *)
   (OAddNode 0 2 0 1 None None BNone (Some true), EValue);            (* deep copy into the own branch *)
   (OAddTree 0 1 0 BNone (Some false), EUnique);                      (* the tree's top nodes below 1 *)
   (OCopyTo 0 1 0 0 false BNone true, EUnique);                       (* children of 1 to the top level: 2 collides with 4 *)
   (OMove 0 1 0 2 BNone, EValue);                                     (* into the own branch *)
   (OMove 0 4 0 1 BNone, EUnique);
   (OMove 1 5 1 0 BNone, ENotImpl);                                   (* typed tree *)
   (OMove 0 1 1 0 BNone, ENotImpl);                                   (* another tree *)
   (ORemove 0 1 true false, EUnique);                                 (* keep_children: 2 would meet 4 *)
   (OSetData 0 2 (Some (c13_dd 7)) None None, EAmbiguous);            (* clones, no decision *)
   (OSetData 0 3 (Some (c13_dd 2)) None None, EUnique);
   (ORename 0 3 (c13_dd 2), EUnique);
   (ODel 0 (KDid (DInt 2) None), EAmbiguous);
   (OFromDict 0 3 [DI (c13_dd 7) None []; DI (c13_dd 7) None []], EUnique)].
Example C13_refusals_nonvacuous :
  wf_world_b c13_w = true /\
  forallb (fun oe => match fst (step c13_w (fst oe)) with Err e => Nat.eqb e (snd oe) && library_error e | Ok _ => false end)
          c13_refused = true.
Proof. vm_compute. split; reflexivity. Qed.

(* a raising sort key after the first level was reordered: ECrash, the state did change *)
Definition c13_sort : op := OSort 0 0 [(1, Some [2%Z]); (4, Some [1%Z]); (2, None); (3, Some [1%Z])] false true.
Example C13_sort_fault_nonvacuous :
  fst (step c13_w c13_sort) = Err ECrash /\ sx_world (snd (step c13_w c13_sort)) <> sx_world c13_w /\
  wf_world_b (snd (step c13_w c13_sort)) = true.
Proof. split; [reflexivity|]. split; [|reflexivity]. intros X. vm_compute in X. discriminate X. Qed.

(* a raising predicate after a removal was executed *)
Definition c13_filter : op := OFilter 0 0 [(1, VTrue); (2, VSkip); (3, VTrue); (4, VRaise)].
Example C13_filter_fault_nonvacuous :
  fst (step c13_w c13_filter) = Err ECrash /\ sx_world (snd (step c13_w c13_filter)) <> sx_world c13_w /\
  wf_world_b (snd (step c13_w c13_filter)) = true.
Proof. split; [reflexivity|]. split; [|reflexivity]. intros X. vm_compute in X. discriminate X. Qed.

(* calc_data_id raising *)
Example C13_calc_fault_nonvacuous :
  fst (step c13_w (OAdd 2 0 (c13_dd 9) None None BNone)) = Err ECrash /\
  fst (step c13_w (OFromDict 0 3 [DI (c13_dd 7) None [DI (c13_dd 8) None []]])) = Ok [] /\
  fst (step c13_w (OTreeCopy 0)) = Ok [3].
Proof. vm_compute. repeat split. Qed.

(* ====================================================================================== *)
(* Refusal at the level of the raw pointers (theories/Mut/Heap.v, HeapRefusal.v).
   [SameTree h h']: registry, clone index, EVERY _children list (also of objects that are no
   nodes), and _parent / _tree / payload of the root and of every node of the tree are the same in
   h and h'.  The only objects that may differ are not nodes of any tree: the refused object itself
   (it keeps the _parent - and after a refused registration the _tree - it was constructed with)
   and the objects a refused from_dict had built and removed again. *)
From NT Require Import Heap HeapProofs HeapRefine HeapFull HeapRefusal.

Theorem C13_heap_refusal : forall hw w o e, WFw w -> RepW hw w ->
  fst (h_step hw o) = Err e -> library_error e = true ->
  Forall2 SameTree (htrees hw) (htrees (snd (h_step hw o))) /\ hnext hw <= hnext (snd (h_step hw o)) /\
  abs_world (snd (h_step hw o)) = option_map (fun w0 => W (trees w0) (hnext (snd (h_step hw o)))) (abs_world hw).
Proof. exact heap_refusal. Qed.
Print Assumptions C13_heap_refusal.

(* no hypothesis left: the heap any history of heap operations produces *)
Theorem C13_heap_refusal_reachable : forall ops o e,
  fst (h_step (h_run ops h_empty_world) o) = Err e -> library_error e = true ->
  Forall2 SameTree (htrees (h_run ops h_empty_world)) (htrees (h_run (ops ++ [o]) h_empty_world)).
Proof. exact heap_refusal_reachable. Qed.
Print Assumptions C13_heap_refusal_reachable.

(* non-vacuity: the refused add_child leaves a dangling object 6 that points at its parent and at the tree,
   and no pointer of the tree has changed *)
Example C13_heap_refusal_nonvacuous :
  let ops := [ONewTree false None; OAdd 0 0 (c13_dd 1) None None BNone; OAdd 0 1 (c13_dd 2) None None BNone] in
  let o := OAdd 0 1 (c13_dd 2) None None BNone in
  fst (h_step (h_run ops h_empty_world) o) = Err EUnique /\
  match htrees (h_run ops h_empty_world), htrees (h_run (ops ++ [o]) h_empty_world) with
  | [h], [h'] => hch h' 0 = hch h 0 /\ hch h' 1 = [2] /\ hreg h' = [1; 2] /\ hpar h 3 = None /\ hpar h' 3 = Some 1 /\ htr h' 3 = true /\ hch h' 3 = []
  | _, _ => False
  end.
Proof. vm_compute. repeat split. Qed.

(* ================= audit follow-up: call indexes, exact partial effects, the other callbacks ================= *)
From NT Require Import FaultIndex FaultSharp.
From NT Require Traverse TraverseStop DictList FaultReadOnly.

(* ---- "the k-th invocation raises", k = position in the call order, whatever the argument ----
   [step_k w o k] = the operation in which invocation k (0-based) of its callback raises:
   calc_data_id in add / shortcuts / set_data / rename / del / from_dict (also "the second call on
   the SAME object", which no argument-keyed table expresses), the sort key, the filter predicate;
   it is a [step] of a poisoned operation, so everything proved for all tables holds for all k *)
Theorem C13_step_k_wf : forall w o k, WFw w -> WFw (snd (step_k w o k)).
Proof. exact step_k_WFw. Qed.
Print Assumptions C13_step_k_wf.

Theorem C13_step_k_calc_unchanged : forall w o k e,
  multi_source o = false -> partial_on_crash o = false -> fst (step_k w o k) = Err e ->
  sx_world (snd (step_k w o k)) = sx_world w.
Proof. intros w o k e M P E. apply trees_sx_world. exact (step_k_calc_unchanged w o k e M P E). Qed.
Print Assumptions C13_step_k_calc_unchanged.

Theorem C13_sort_k_effect : forall w ti p kt rv dp k t,
  get_tree w ti = Some t ->
  exists t', get_tree (snd (step_k w (OSort ti p kt rv dp) k)) ti = Some t'
    /\ reg t' = reg t /\ idx t' = idx t /\ Permutation (rows 0 (forest_of t)) (rows 0 (forest_of t')).
Proof. exact sort_k_effect. Qed.
Print Assumptions C13_sort_k_effect.

Theorem C13_filter_k_effect : forall w ti n vd k t,
  get_tree w ti = Some t ->
  exists t', get_tree (snd (step_k w (OFilter ti n vd) k)) ti = Some t'
    /\ incl (rows 0 (forest_of t')) (rows 0 (forest_of t)).
Proof. exact filter_k_effect. Qed.
Print Assumptions C13_filter_k_effect.

(* the poisoned object really makes the callback raise; the poisoned node really is answered by raise *)
Theorem C13_poison_raises : forall tbl d n k vd,
  calc_id (Some tbl) (poison_dat tbl d) = None /\ key_of ((n, None) :: k) n = None /\ verdict_of ((n, VRaise) :: vd) n = VRaise.
Proof. intros. split; [apply calc_poisoned|split; [apply key_of_poisoned|apply verdict_of_poisoned]]. Qed.
Print Assumptions C13_poison_raises.

(* non-vacuity: object 9 is passed to calc_data_id twice by one from_dict (invocations 0 and 2);
   invocation 2 raising = "second call on the same object": ECrash, nothing left; invocation 3 does not exist: Ok *)
Definition c13_wcal : world :=
  run [ONewTree false (Some [(1%Z, Some (DInt 1)); (7%Z, Some (DInt 7)); (9%Z, Some (DInt 9))]); OAdd 0 0 (c13_dd 1) None None BNone] empty_world.
Definition c13_fd : op := OFromDict 0 1 [DI (c13_dd 9) None []; DI (c13_dd 7) None [DI (c13_dd 9) None []]].
Example C13_call_index_nonvacuous :
  map (fun k => (fst (step_k c13_wcal c13_fd k), sx_eqb (sx_world (snd (step_k c13_wcal c13_fd k))) (sx_world c13_wcal))) [0; 1; 2; 3]
  = [(Err ECrash, true); (Err ECrash, true); (Err ECrash, true); (Ok [], false)]
  /\ (* sort: invocations in call order 1 4 | 2 3; a fault at 0/1 changes nothing, at 2/3 the first level is sorted *)
  map (fun k => (fst (step_k c13_w (OSort 0 0 [(1, Some [2%Z]); (4, Some [1%Z]); (2, Some [5%Z]); (3, Some [1%Z])] false true) k),
                 sx_eqb (sx_world (snd (step_k c13_w (OSort 0 0 [(1, Some [2%Z]); (4, Some [1%Z]); (2, Some [5%Z]); (3, Some [1%Z])] false true) k))) (sx_world c13_w)))
      [0; 1; 2; 3; 4]
  = [(Err ECrash, true); (Err ECrash, true); (Err ECrash, false); (Err ECrash, false); (Ok [], false)]
  /\ (* filter: invocations 1 2 3 4; node 2 is removed when the scan of node 1 ends, i.e. before invocation 3 *)
  map (fun k => (fst (step_k c13_w (OFilter 0 0 [(1, VTrue); (2, VSkip); (3, VTrue); (4, VFalse)]) k),
                 sx_eqb (sx_world (snd (step_k c13_w (OFilter 0 0 [(1, VTrue); (2, VSkip); (3, VTrue); (4, VFalse)]) k))) (sx_world c13_w)))
      [0; 1; 2; 3; 4]
  = [(Err ECrash, true); (Err ECrash, true); (Err ECrash, true); (Err ECrash, false); (Ok [], false)].
Proof. vm_compute. repeat split. Qed.

(* ---- exactly what remains after a fault ---- *)
(* sort: every child list of the result is the original list or its sorted form AS A WHOLE (all keys of a
   level are computed before anything moves), recursively through the sorted order; never a half-sorted list *)
Theorem C13_sort_fault_exact : forall w ti p kt rv dp t pq ch,
  get_tree w ti = Some t -> parent_path p (forest_of t) = Some pq -> get_ch pq (forest_of t) = Some ch ->
  exists ch', LSRel kt rv ch ch'
    /\ snd (op_sort w ti p kt rv dp) = put_tree w ti (set_forest t (upd_ch pq (fun _ => ch') (forest_of t))).
Proof. exact sort_fault_exact. Qed.
Print Assumptions C13_sort_fault_exact.

(* a level with a raising key is left as it is; after the first failure nothing further is touched *)
Theorem C13_sort_fault_stops : forall k rev fuel id i ch t,
  (ch <> [] -> keys_ok k ch = false -> sort_deep (S fuel) k rev (T id i ch) false = (T id i ch, true))
  /\ sort_deep fuel k rev t true = (t, true).
Proof. intros. split; [apply sort_deep_level_fault|apply sort_deep_failed]. Qed.
Print Assumptions C13_sort_fault_stops.

(* filter: the state is the one after executing, in order, exactly the removals the scan had emitted when the
   predicate raised; each removal takes one whole branch / all children of one node ([accounts]); the rows
   before are the removed rows plus the rows after - nothing lost, duplicated or moved; the tree is well-formed *)
Theorem C13_filter_fault_exact : forall w ti n vd t ch,
  WFw w -> get_tree w ti = Some t -> children_of n (forest_of t) = Some ch ->
  let '(_, acts, _, failed) := fvisit vd (T 0 dummy_info ch) false in
  let t' := fold_left apply_fact acts t in
  step w (OFilter ti n vd) = ((if failed then Err ECrash else Ok []), put_tree w ti t')
  /\ WF t'
  /\ exists R, accounts t acts R /\ Permutation (rows 0 (forest_of t)) (R ++ rows 0 (forest_of t')).
Proof. exact filter_fault_exact. Qed.
Print Assumptions C13_filter_fault_exact.

Example C13_fault_exact_nonvacuous :
  (* the raising predicate at node 4: exactly one removal had been made, the branch of node 2 *)
  (let '(_, acts, _, failed) := fvisit [(1, VTrue); (2, VSkip); (3, VTrue); (4, VRaise)] (T 0 dummy_info (match get_tree c13_w 0 with Some t => forest_of t | None => [] end)) false in (acts, failed))
  = ([FBranch 2], true)
  /\ (* the raising key at node 2: the top level is sorted (4 before 1), the children of 1 are as they were *)
  match get_tree (snd (step c13_w c13_sort)) 0 with
  | Some t => (map rid (forest_of t), map (fun x => map rid (rch x)) (forest_of t))
  | None => ([], [])
  end = ([4; 1], [[]; [2; 3]]).
Proof. vm_compute. split; reflexivity. Qed.

(* ---- the callbacks that are not callbacks of the mutation machine ---- *)
(* visitor (C06's model with call-index callbacks): an exception at invocation k ends the traversal - exactly
   the first k+1 nodes of the order were called - and is re-raised.  (visit is a pure function in the model:
   that the tree is unchanged is checked on the implementation by the snapshot oracle.) *)
Theorem C13_visitor_fault : forall (cb : Traverse.cbT) s m a k e l,
  TraverseStop.at_call cb k (Traverse.Err e) -> TraverseVisit.visit_supported m = true -> Traverse.iterator s m a = Some l ->
  Traverse.visit cb s m a
  = if Nat.ltb k (length l) then (firstn (S k) (map rid l), Traverse.VRaise e) else (map rid l, Traverse.VReturn None).
Proof. exact FaultReadOnly.visitor_fault_at_call. Qed.
Print Assumptions C13_visitor_fault.

(* deserialisation mapper (C14's model of Tree.from_dict / Node.from_dict): a tree is returned only if the
   mapper raised on NO item of the input, at any depth - a raising invocation builds no tree *)
Theorem C13_mapper_fault_no_tree : forall dd calc next obj f,
  DictList.from_dict dd calc next obj = inl f ->
  FaultReadOnly.pts_all (FaultReadOnly.mapped dd) (map DictList.parse obj).
Proof. exact FaultReadOnly.from_dict_all_mapped. Qed.
Print Assumptions C13_mapper_fault_no_tree.

Theorem C13_node_mapper_fault_no_tree : forall dd calc next f target obj g,
  DictList.node_from_dict dd calc next f target obj = inl g ->
  FaultReadOnly.pts_all (FaultReadOnly.mapped dd) (map DictList.parse obj).
Proof. exact FaultReadOnly.node_from_dict_all_mapped. Qed.
Print Assumptions C13_node_mapper_fault_no_tree.

(* Node.from_dict(items, mapper) on an ATTACHED node (mutating), machine level: [MI None ..] = the mapper raises
   on that item; the items before it (pre-order) are added, then the rollback (fix D48) removes them *)
Theorem C13_from_dict_mapper_fault : forall w ti p items,
  (snd (FaultReadOnly.trunc_items items) = true -> exists e, fst (FaultReadOnly.op_from_dict_m w ti p items) = Err e)
  /\ (forall e, fst (FaultReadOnly.op_from_dict_m w ti p items) = Err e ->
        sx_world (snd (FaultReadOnly.op_from_dict_m w ti p items)) = sx_world w)
  /\ (WFw w -> WFw (snd (FaultReadOnly.op_from_dict_m w ti p items))).
Proof.
  intros w ti p items. split; [apply FaultReadOnly.from_dict_m_raises|]. split; [|apply FaultReadOnly.from_dict_m_WFw].
  intros e E. apply trees_sx_world. exact (FaultReadOnly.from_dict_m_unchanged w ti p items e E).
Qed.
Print Assumptions C13_from_dict_mapper_fault.

Definition c13_inf (s : text) : info := I 0 0 0 true s (DInt 0) None [].
Definition c13_dd_mapper : DictList.dmapper :=
  DictList.dd_raw (fun v => match v with DictList.JStr s => inl (c13_inf s) | _ => inr DictList.E_CRASH end).
Definition c13_cb : Traverse.cbT := fun calls _ => if Nat.eqb (length calls) 1 then Traverse.RaiseOther 8 else Traverse.RetNone.
Example C13_other_callbacks_nonvacuous :
  (* mapper raising on the third of three items, two levels deep, on node 3 of c13_w which has the sibling 2 *)
  (let r := FaultReadOnly.op_from_dict_m c13_w 0 3
              [FaultReadOnly.MI (Some (c13_dd 7)) None [FaultReadOnly.MI (Some (c13_dd 8)) None []; FaultReadOnly.MI None None []];
               FaultReadOnly.MI (Some (c13_dd 9)) None []] in
   (fst r, sx_eqb (sx_world (snd r)) (sx_world c13_w), next (snd r) - next c13_w)) = (Err ECrash, true, 2)
  /\ DictList.from_dict c13_dd_mapper DictList.default_did 0
       [DictList.JDict [(DictList.k_data, DictList.JStr [97%Z])]; DictList.JDict [(DictList.k_data, DictList.JInt 5)]] = inr DictList.E_CRASH
  /\ Traverse.tree_visit c13_cb [T 1 (c13_inf []) [T 2 (c13_inf []) []; T 3 (c13_inf []) []]] Traverse.PRE = ([1; 2], Traverse.VRaise 8).
Proof. vm_compute. repeat split. Qed.

(* ---- ECrash of a sort is always a raising key: with a key for every node the deep sort does not fail
   (the fuel of the model's recursion is never the reason) ---- *)
Theorem C13_sort_crash_is_a_raising_key : forall w ti p k rev deep,
  fst (op_sort w ti p k rev deep) = Err ECrash -> ~ total_keys k.
Proof. exact sort_crash_is_a_raising_key. Qed.
Print Assumptions C13_sort_crash_is_a_raising_key.

(* ---- the function the correspondence evaluates is [step_chk] / [run_chk] (CaseMut.v: [step] guarded by the
   liveness of the references, else (Err EModel, w)): the refusal theorem for exactly that function ---- *)
From NT Require CaseMut CaseWF.
Theorem C13_refusal_chk : forall w o e,
  WFw w -> fst (CaseMut.step_chk w o) = Err e -> library_error e = true ->
  sx_world (snd (CaseMut.step_chk w o)) = sx_world w.
Proof.
  intros w o e H. unfold CaseMut.step_chk. destruct (CaseMut.op_live w o); [apply C13_refusal; exact H|reflexivity].
Qed.
Print Assumptions C13_refusal_chk.

Theorem C13_refusal_chk_reachable : forall ops o e,
  fst (CaseMut.step_chk (CaseMut.run_chk ops empty_world) o) = Err e -> library_error e = true ->
  sx_world (snd (CaseMut.step_chk (CaseMut.run_chk ops empty_world) o)) = sx_world (CaseMut.run_chk ops empty_world).
Proof. intros ops o e. apply C13_refusal_chk. apply CaseWF.WFw_run_chk, WFw_empty. Qed.
Print Assumptions C13_refusal_chk_reachable.

(* ---- every operation and every error class (also TypeError / dead references inside add(tree) and
   copy_to(add_self=False), which [C13_error_unchanged] left out): in a well-formed world the only exits
   with a partial effect are a raising sort key and a raising filter predicate ---- *)
From NT Require Import RefusalMultiAll.
Theorem C13_error_unchanged_all : forall w o e,
  WFw w -> partial_on_crash o = false -> fst (step w o) = Err e ->
  sx_world (snd (step w o)) = sx_world w.
Proof. intros w o e H P E. apply trees_sx_world. exact (error_all w o e H P E). Qed.
Print Assumptions C13_error_unchanged_all.

Example C13_error_all_nonvacuous :
  (* a typed source copied into the plain tree: TypeError out of the loop of add(tree), nothing changed *)
  fst (step c13_w (OAddTree 0 1 1 BNone None)) = Err EType /\ partial_on_crash (OAddTree 0 1 1 BNone None) = false.
Proof. vm_compute. split; reflexivity. Qed.
