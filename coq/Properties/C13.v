(* C13 - refused or failing operations do not corrupt the tree.
   Statements only; proofs are in theories/Mut/Refusal.v (on the mutation
   machine theories/Mut/Machine.v, which harness/props/C13.py ties to the
   implementation after every step of every generated history). *)
From Coq Require Import List ZArith Bool Arith Permutation.
From NT Require Import Sx Rose Surgery Machine WF Refusal.
Import ListNotations.

(* ---- refusal: single-phase operations, ANY world ---- *)
Theorem C13_refusal_single : forall w o e,
  multi_source o = false -> fst (step w o) = Err e -> library_error e = true ->
  sx_world (snd (step w o)) = sx_world w.
Proof. intros w o e M E L. apply trees_sx_world. apply (refusal_single w o e M E). now apply library_not_crash. Qed.
Print Assumptions C13_refusal_single.
