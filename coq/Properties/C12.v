(* C12 — the native file format follows its documented layout, both ways. (stub, grown below) *)
From Coq Require Import List ZArith Bool.
From NT Require Import Sx Rose Serialize SerializeSpec.
Import ListNotations.
