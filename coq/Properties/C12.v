(* C12 — The native file format follows its documented layout, both ways.
   Statements only; proofs are in theories/Forest/Ser*.v.

   Model: theories/Forest/Serialize.v (Node.to_list_iter, _make_list_entry, _compress_entry,
   Tree.save / load / _uncompress_entry / _from_list, TypedTree variants).
   Specification, written independently from docs/sphinx/ug_serialize.rst:
   theories/Forest/SerializeSpec.v ([layout], [header_spec], [has_header], [described]).

   Side conditions (findings of the proofs):
   - ids_ok f        node identities unique, none equal to the system root's
   - opts_ok         key_map injective; no entry uses one of its short names as a key; entry keys unique;
                     every value under a value-mapped key is a str listed for that key; user meta avoids
                     $generator / $format_version / $key_map / $value_map
   - mapper_ok       the mapper pair keeps "kind" and "data_id", deser succeeds on what ser produced,
                     regardless of member order, and rebuilds str-ness and text of the data
   - id_stable       rebuilt data has the stored node's default id (hash); known finding D40 outside
   - tree_ok         sibling data_ids unique, typed nodes have a kind, nodes sharing a data_id share their data *)
From Coq Require Import List ZArith Bool String.
From NT Require Import Sx Rose Serialize SerializeSpec SerCompressProofs SerWriterProofs SerReaderProofs SerIsoProofs SerializeProofs
     SerTheorems SerWitness SerReaderPerm SerWitness2.
From NTGen Require Import Generated.
Import ListNotations.
Open Scope list_scope.

(* 1. The writer follows the layout: for every tree and option set, the document written is the
      declarative layout: header = generator, version, maps in use, user meta; entries in pre-order;
      entry = [position of the parent entry (0 = root), data]; data = position of the first occurrence
      iff an earlier node has the same data_id and that first one has the same kind, else the entry with
      keys and values shortened as the header declares. *)
Theorem C12_writer_follows_layout : forall c ser ko vo meta f,
  ids_ok f -> opts_ok c ser ko vo meta f ->
  save_doc c ser ko vo meta f = Ok (layout_doc c ser ko vo meta f).
Proof. exact save_doc_is_layout. Qed.
Print Assumptions C12_writer_follows_layout.

(* what the layout is: one entry per node, in pre-order, numbered 1..n; the parent field is 0 exactly
   for top-level nodes and otherwise the position of the EARLIER entry of the node's parent *)
Theorem C12_layout_shape : forall c ser km vm f,
  List.length (layout c ser km vm f) = size_f f /\
  map SerLayFacts.q_node (lay_f 0 1 f) = pre_f f /\
  map SerLayFacts.q_pos (lay_f 0 1 f) = seq 1 (size_f f) /\
  (forall q, In q (lay_f 0 1 f) -> SerLayFacts.q_ppos q = 0 \/ (1 <= SerLayFacts.q_ppos q /\ SerLayFacts.q_ppos q < SerLayFacts.q_pos q)).
Proof. exact layout_shape. Qed.
Print Assumptions C12_layout_shape.

Theorem C12_layout_parent : forall f q, In q (lay_f 0 1 f) ->
  (SerLayFacts.q_ppos q = 0 /\ In (SerLayFacts.q_node q) f) \/
  exists y, In y (lay_f 0 1 f) /\ SerLayFacts.q_pos y = SerLayFacts.q_ppos q /\
            In (SerLayFacts.q_node q) (rch (SerLayFacts.q_node y)).
Proof. exact layout_parent. Qed.
Print Assumptions C12_layout_parent.

(* the node list alone (no header): to_list_iter *)
Theorem C12_to_list_iter_layout : forall c ser km vm f,
  ids_ok f -> km_ok km -> entries_ok c ser km vm f ->
  to_list_iter c ser km vm f = Ok (layout c ser km vm f).
Proof. exact to_list_iter_layout_ok. Qed.
Print Assumptions C12_to_list_iter_layout.

(* the shortening loop writes exactly what the header maps declare, and the reader's loop undoes it *)
Theorem C12_shortening_as_declared : forall km vm d,
  km_ok km -> dict_ok km vm d ->
  compress_dict km vm d = Ok (short_dict km vm d) /\
  uncompress_dict (ikm_of km) (vmj_of vm) (short_dict km vm d) = Ok (canon_dict km d) /\
  Permutation.Permutation (canon_dict km d) d.
Proof. exact shortening_as_declared. Qed.
Print Assumptions C12_shortening_as_declared.

(* 2. The reader accepts documents of that layout produced by any other means: it returns the header
      and a tree iso to the one encoded, node ids = entry positions. *)
Theorem C12_reader_accepts_layout : forall c ser deser shash f ko vo meta,
  tree_ok c f -> opts_ok c ser ko vo meta f -> mapper_ok c ser deser f -> id_stable c ser deser shash f ->
  exists f', load_doc c deser shash (layout_doc c ser ko vo meta f)
             = Ok (header_spec (resolve_km c ko) (resolve_vm c vo f) meta, f') /\
             iso f f' /\ ids f' = seq 1 (size_f f) /\ f' = described c ser deser shash f.
Proof. exact layout_loads. Qed.
Print Assumptions C12_reader_accepts_layout.

(* ... for arbitrary (already resolved) maps *)
Theorem C12_reader_accepts_layout_maps : forall c ser deser shash f km vm meta,
  km_ok km -> entries_ok c ser km vm f -> meta_ok meta -> mappers_ok c ser deser f ->
  described_unique c ser deser shash f ->
  load_doc c deser shash (doc (header_spec km vm meta) (layout c ser km vm f))
  = Ok (header_spec km vm meta, described c ser deser shash f).
Proof. exact load_layout_described. Qed.
Print Assumptions C12_reader_accepts_layout_maps.

(* 2b. JSON objects are unordered: the same holds for every document that renders the layout with the
       members of its objects (top level, header, entries) in ANY order; the header comes back up to order. *)
Theorem C12_reader_accepts_any_member_order : forall c ser deser shash f ko vo meta j,
  tree_ok c f -> opts_ok c ser ko vo meta f -> mapper_ok c ser deser f -> id_stable c ser deser shash f ->
  doc_like (header_spec (resolve_km c ko) (resolve_vm c vo f) meta)
           (layout c ser (resolve_km c ko) (resolve_vm c vo f) f) j ->
  exists hdr' f', load_doc c deser shash j = Ok (hdr', f') /\
                  Permutation.Permutation hdr' (header_spec (resolve_km c ko) (resolve_vm c vo f) meta) /\
                  iso f f' /\ ids f' = seq 1 (size_f f).
Proof. exact layout_like_loads. Qed.
Print Assumptions C12_reader_accepts_any_member_order.

(* e.g. the rendering with all members reversed (and "nodes" before "meta") *)
Theorem C12_reversed_rendering_is_admissible : forall c ser km vm hdr f,
  doc_like hdr (layout c ser km vm f) (rev_doc hdr (layout c ser km vm f)).
Proof. exact rev_doc_like. Qed.
Print Assumptions C12_reversed_rendering_is_admissible.

(* 3. The literal documents of docs/sphinx/ug_serialize.rst (lifted from the .rst by gen_facts on
      every run) load to the trees drawn there, the marked clones share data_id and data object,
      and the stored "foo": "bar" comes back. *)
Theorem C12_guide_examples :
  List.length DOC_EXAMPLES = 4 /\
  (loads_as (default_deser CPlain whash) DOC_EXAMPLE_0 guide_tree_0 2 6 /\
   dget (t_ "foo") (match jv_of_gj DOC_EXAMPLE_0 with JDict o => match dget k_meta o with Some (JDict m) => m | _ => [] end | _ => [] end)
   = Some (JStr (t_ "bar"))) /\
  loads_as guide_deser DOC_EXAMPLE_1 guide_tree_1 3 5 /\
  loads_as guide_deser DOC_EXAMPLE_2 guide_tree_1 3 5 /\
  loads_as guide_deser DOC_EXAMPLE_3 guide_tree_1 3 5.
Proof.
  exact (conj guide_examples_count (conj guide_example_0 (conj guide_example_1 (conj guide_example_2 guide_example_3)))).
Qed.
Print Assumptions C12_guide_examples.

Theorem C12_guide_examples_agree :
  match load_doc CPlain guide_deser whash (jv_of_gj DOC_EXAMPLE_1), load_doc CPlain guide_deser whash (jv_of_gj DOC_EXAMPLE_2),
        load_doc CPlain guide_deser whash (jv_of_gj DOC_EXAMPLE_3) with
  | Ok (_, f1), Ok (_, f2), Ok (_, f3) => f1 = f2 /\ f2 = f3
  | _, _, _ => False
  end.
Proof. exact guide_examples_agree. Qed.
Print Assumptions C12_guide_examples_agree.

(* 4. JSON without the nutree header is rejected, for every JSON value, loading class and mapper *)
Theorem C12_no_header_rejected : forall c deser shash j,
  has_header j = false ->
  load_doc c deser shash j = Err EFormat \/ load_doc c deser shash j = Err EType.
Proof. exact no_header_rejected. Qed.
Print Assumptions C12_no_header_rejected.

Theorem C12_no_header_rejected_invalid_format : forall c deser shash j,
  has_header j = false ->
  (forall o m, j = JDict o -> dget k_meta o = Some m -> exists md, m = JDict md) ->
  load_doc c deser shash j = Err EFormat.
Proof. exact no_header_rejected_format. Qed.
Print Assumptions C12_no_header_rejected_invalid_format.

(* 5. Facts regenerated from the source on every run: format version, and the default maps are the ones
      the guide states ("key_map = {"data_id": "i", "str": "s"}", TypedTree adds "kind": "k"; "There is
      no default for value_map") and are admissible (injective) *)
Theorem C12_generated_tables :
  FILE_FORMAT_VERSION = t_ "1.0" /\
  TREE_KEY_MAP = [(t_ "data_id", t_ "i"); (t_ "str", t_ "s")] /\
  TYPED_KEY_MAP = [(t_ "data_id", t_ "i"); (t_ "str", t_ "s"); (t_ "kind", t_ "k")] /\
  FS_KEY_MAP = [] /\ TREE_VALUE_MAP = [] /\ TYPED_VALUE_MAP = [] /\
  DEFAULT_CHILD_TYPE = t_ "child" /\
  (forall c, km_ok (default_key_map c)).
Proof. exact generated_tables. Qed.
Print Assumptions C12_generated_tables.

(* ---- non-vacuity: the hypotheses hold for a concrete mapper pair on every tree satisfying tree_ok,
   e.g. on f_ex (clones nested below and below a sibling of the first occurrence, explicit id) and
   f_ty (typed, clone of another kind) with default and with custom maps *)
Example C12_hypotheses_satisfiable :
  (tree_ok CPlain f_ex /\ opts_ok CPlain wser KTrue VTrue ex_meta f_ex /\ mapper_ok CPlain wser (wdeser true) f_ex /\
   id_stable CPlain wser (wdeser true) whash f_ex) /\
  (tree_ok CTyped f_ty /\ opts_ok CTyped wser (KCustom ex_km) (VCustom ex_vm) ex_meta f_ty /\
   mapper_ok CTyped wser (wdeser true) f_ty /\ id_stable CTyped wser (wdeser true) whash f_ty).
Proof.
  destruct (tree_okb_sound CPlain f_ex f_ex_ok) as (A1 & A2 & A3 & A4 & A5).
  destruct (tree_okb_sound CTyped f_ty f_ty_ok) as (B1 & B2 & B3 & B4 & B5).
  split; (split; [unfold tree_ok; auto|]); (split; [|split; [split; [apply wmappers_ok|apply wmapper_rebuilds]|now apply wid_stable]]).
  - apply wopts_ok; auto. apply ex_meta_ok.
  - apply opts_okb_sound; [exact f_ty_custom_ok|apply ex_meta_ok].
Qed.
(* the reversed rendering of f_ty (custom maps) is a different JSON value than the layout document *)
Example C12_reversed_rendering_differs :
  let km := resolve_km CTyped (KCustom ex_km) in let vm := resolve_vm CTyped (VCustom ex_vm) f_ty in
  jv_eqb (rev_doc (header_spec km vm ex_meta) (layout CTyped wser km vm f_ty))
         (layout_doc CTyped wser (KCustom ex_km) (VCustom ex_vm) ex_meta f_ty) = false.
Proof. vm_compute. reflexivity. Qed.
(* ... and the layout of f_ex shows the documented references *)
Example C12_layout_example :
  let l := layout CPlain wser (resolve_km CPlain KTrue) (resolve_vm CPlain VTrue f_ex) f_ex in
  List.length l = 7 /\ nth 0 l JNull = entry 0 (JStr (t_ "a")) /\ nth 3 l JNull = entry 3 (jnat 1) /\
  nth 4 l JNull = entry 0 (jnat 2) /\ nth 5 l JNull = entry 5 (jnat 1) /\
  nth 6 l JNull = entry 5 (JDict [(t_ "s", JStr (t_ "c")); (t_ "i", JStr (t_ "k"))]).
Proof. exact f_ex_layout_refs. Qed.

(* the generated facts this property uses were lifted from the current source *)
Theorem C12_generated_facts_present : GEN_CONST_OK = true /\ GEN_DOCS_OK = true.
Proof. split; reflexivity. Qed.
Print Assumptions C12_generated_facts_present.

(* ====================================================================================== *)
(* Glue (theories/Glue/GluePreSer.v): the (parent id, node) enumeration the writer walks is the row list
   of the mutation machine (Mut/SurgeryFacts.v [rows]): same order, same parent component. *)
From NT Require SurgeryFacts GluePreSer.

Theorem C12_preorder_is_the_machines_rows : forall f o,
  map GluePreSer.par_row (flat_map (pre_par o) f) = SurgeryFacts.rows o f.
Proof. exact GluePreSer.pre_par_rows. Qed.
Print Assumptions C12_preorder_is_the_machines_rows.

(* ====================================================================================== *)
(* Glue C12/C05 <-> C03/C01 (theories/Glue/GlueLoad.v).  Tree._from_list / TypedTree._from_list is modelled
   twice: by the reader above ([from_list]: creation-ordered node table, [unflat] at the end) and by the
   mutation machine (Mut/MachineLoad.v [op_load]: every entry is an add_child(data) / add_child(node) step on a
   tree state with registry, clone index and the uniqueness check of Tree._register; C01 / C03 speak about it).
   [ldoc] turns the file's entries into the machine's entries (parent index; data object after the mapper,
   explicit data_id, kind | reference index).  Loaded into a world whose allocator is at 1 (the reader numbers
   the nodes from 1) the machine accepts every node list the reader accepts and builds EXACTLY the reader's
   forest - identities, payloads, kinds, clones included - and a UniqueConstraintError of the reader is one of
   the machine, with no tree added. *)
From NT Require Machine WF MachineLoad GlueLoad.

Theorem C12_machine_load_builds_the_readers_forest : forall c deser shash w l f,
  WF.WFw w -> Machine.next w = 1 -> from_list c deser shash l = Ok f ->
  exists doc w' t',
    GlueLoad.ldoc c deser shash 1 l = Some doc /\
    MachineLoad.op_load w (is_typed c) doc = (Machine.Ok [List.length (Machine.trees w)], w') /\
    Machine.get_tree w' (List.length (Machine.trees w)) = Some t' /\ Machine.forest_of t' = f /\ WF.WF t' /\
    (forall tj, tj < List.length (Machine.trees w) -> Machine.get_tree w' tj = Machine.get_tree w tj).
Proof. exact GlueLoad.load_agrees. Qed.
Print Assumptions C12_machine_load_builds_the_readers_forest.

Theorem C12_machine_load_refuses_alike : forall c deser shash w l doc,
  WF.WFw w -> Machine.next w = 1 ->
  from_list c deser shash l = Err EUnique -> GlueLoad.ldoc c deser shash 1 l = Some doc ->
  fst (MachineLoad.op_load w (is_typed c) doc) = Machine.Err Machine.EUnique /\
  Machine.trees (snd (MachineLoad.op_load w (is_typed c) doc)) = Machine.trees w.
Proof. exact GlueLoad.load_refuses_alike. Qed.
Print Assumptions C12_machine_load_refuses_alike.

(* non-vacuity: the node lists of the user guide's first two documents and the three hand-made files of the
   C03 corpus, on both models *)
Definition c12g_nodes (g : gjson) : list jv :=
  match jv_of_gj g with JDict o => match dget k_nodes o with Some (JList l) => l | _ => [] end | _ => [] end.
Definition c12g_both (c : cls) (deser : nat -> dict -> res dval) (l : list jv) : bool :=
  match from_list c deser whash l, GlueLoad.ldoc c deser whash 1 l with
  | Ok f, Some doc =>
      match MachineLoad.op_load Machine.empty_world (is_typed c) doc with
      | (Machine.Ok [0], w') =>
          match Machine.trees w' with
          | [t'] => sx_eqb (sx_forest (Machine.forest_of t')) (sx_forest f) && negb (match f with [] => true | _ => false end)
          | _ => false
          end
      | _ => false
      end
  | Err e, Some doc =>
      Z.eqb e EUnique &&
      match MachineLoad.op_load Machine.empty_world (is_typed c) doc with
      | (Machine.Err 1, w') => match Machine.trees w' with [] => true | _ => false end
      | _ => false
      end
  | _, None => false
  end.
Definition c12g_file (l : list (Z * jv)) : list jv := map (fun pd => JList [JInt (fst pd); snd pd]) l.
Example C12_machine_load_nonvacuous :
  c12g_both CPlain (default_deser CPlain whash) (c12g_nodes DOC_EXAMPLE_0) = true /\
  c12g_both CPlain guide_deser (c12g_nodes DOC_EXAMPLE_1) = true /\
  c12g_both CTyped (default_deser CTyped whash) (c12g_nodes DOC_EXAMPLE_0) = true /\
  c12g_both CPlain (default_deser CPlain whash) (c12g_file [(0, JStr [97]); (0, JStr [98]); (0, JStr [97])]%Z) = true /\
  c12g_both CPlain (default_deser CPlain whash) (c12g_file [(0, JStr [97]); (1, JStr [98]); (1, JInt 2)]%Z) = true /\
  c12g_both CPlain (default_deser CPlain whash) (c12g_file [(0, JStr [97]); (0, JStr [98]); (2, JInt 1)]%Z) = true.
Proof. vm_compute. repeat split. Qed.

(* ====================================================================== audit follow-up *)
From NT Require Import SerAuditC12.

(* B1. The header, declaratively (no use of the reader's test): a JSON object with a member "nodes" and a member
       "meta" that is an object whose "$generator" mentions "nutree/" (a string containing it; str() of a list or
       dict shows its strings, so a container does if a member or key does).  The reader's test accepts EXACTLY
       these values, and every other JSON value is rejected. *)
Theorem C12_header_test_is_the_declared_header : forall j md,
  check_header j = Ok md <-> has_header_decl j md.
Proof. exact check_header_iff. Qed.
Print Assumptions C12_header_test_is_the_declared_header.

Theorem C12_no_declared_header_rejected : forall c deser shash j,
  (forall md, ~ has_header_decl j md) ->
  exists e, load_doc c deser shash j = Err e /\ (e = EFormat \/ e = EType).
Proof. exact load_rejects_iff_no_header. Qed.
Print Assumptions C12_no_declared_header_rejected.

Theorem C12_has_header_is_declared : forall j, has_header j = true <-> exists md, has_header_decl j md.
Proof. exact has_header_bool_decl. Qed.
Print Assumptions C12_has_header_is_declared.

Theorem C12_substring_is_declared : forall p s, is_substr p s = true <-> exists a b, s = a ++ p ++ b.
Proof. exact is_substr_iff. Qed.
Print Assumptions C12_substring_is_declared.

(* B2. "The maps in use", specified independently of the writer: key_map True -> the class table of the guide,
       False -> none, a dict -> itself; value_map False -> none, True -> none (TypedTree: "kind": the distinct kinds
       in order of first occurrence), a dict -> itself (TypedTree adds "kind" unless present).  The writer's
       resolution equals it, the kind list has no duplicates and is exactly the set of kinds that occur. *)
Theorem C12_maps_in_use_as_specified : forall c ko vo f,
  resolve_km c ko = km_spec c ko /\ resolve_vm c vo f = vm_spec c vo f.
Proof. exact resolution_is_spec. Qed.
Print Assumptions C12_maps_in_use_as_specified.

Theorem C12_kind_list : forall f,
  NoDup (kinds_spec f) /\ forall k, In k (kinds_spec f) <-> exists t, In t (pre_f f) /\ rkind t = Some k.
Proof. exact kinds_spec_props. Qed.
Print Assumptions C12_kind_list.

Theorem C12_writer_follows_layout_with_specified_maps : forall c ser ko vo meta f,
  ids_ok f -> opts_ok c ser ko vo meta f ->
  save_doc c ser ko vo meta f
  = Ok (doc (header_spec (km_spec c ko) (vm_spec c vo f) meta) (layout c ser (km_spec c ko) (vm_spec c vo f) f)).
Proof. exact save_doc_is_layout_spec. Qed.
Print Assumptions C12_writer_follows_layout_with_specified_maps.

(* B3. JSON-level reading of the layout: entry #k is [parent position of the k-th node in pre-order, data]; if the
       data is a number j then position j is an EARLIER node with the same data_id and the same kind. *)
Theorem C12_layout_entry_reading : forall c ser km vm f k q,
  nth_error (lay_f 0 1 f) k = Some q ->
  (exists data, nth_error (layout c ser km vm f) k = Some (entry (SerLayFacts.q_ppos q) data)) /\
  (forall j, nth_error (layout c ser km vm f) k = Some (entry (SerLayFacts.q_ppos q) (jnat j)) ->
     exists x, In (j, x) (map (fun q => (SerLayFacts.q_pos q, SerLayFacts.q_node q)) (firstn k (lay_f 0 1 f))) /\
               rdid x = rdid (SerLayFacts.q_node q) /\ rkind x = rkind (SerLayFacts.q_node q)).
Proof. exact layout_entry_reading. Qed.
Print Assumptions C12_layout_entry_reading.

(* typed witness: #3 (kind b, first occurrence has kind a) in full, #5 (kind a) as the reference [4, 1] *)
Example C12_layout_example_typed :
  let l := layout CTyped wser (resolve_km CTyped KFalse) (resolve_vm CTyped VFalse f_ty) f_ty in
  List.length l = 5 /\ nth 4 l JNull = entry 4 (jnat 1) /\
  match nth 2 l JNull with JList [p; JDict _] => p = jnat 2 | _ => False end.
Proof. exact f_ty_layout_refs. Qed.

(* Outside the documented layout: JSON objects with a DUPLICATE member name.  The model's objects are association
   lists read first-binding-wins, Python's json.load keeps the last binding; the theorems speak about parsed values
   with unique member names (what json.dump writes and what the layout describes). *)
