(* C08 — stub, replaced below *)
From Coq Require Import List ZArith Bool.
From NT Require Import Sx Rose Filter CaseC08.
Import ListNotations.
Theorem C08_stub : True. Proof. exact Logic.I. Qed.
Print Assumptions C08_stub.
