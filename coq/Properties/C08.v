(* C08 — Filtering keeps exactly the accepted nodes and their ancestors.
   Statements only; proofs are in theories/Forest/FilterProofs.v (+ FilterUnique.v, FilterAudit.v,
   FilterTrace.v, FilterSource.v), the executable model in theories/Forest/Filter.v.

   WHAT IS CLAIMED (read this before the theorem list).
   * In place (Tree.filter / Node.filter, repaired: D05, D25): the property as stated -- the result is F v f
     (C08_inplace_is_F), whose node set is exactly [kept] (C08_kept_exactly), each node once, order and
     ancestry preserved.
   * Copying (Tree.filtered / copy(predicate=) / Node.…): NOT the property as stated.  The EXACT theorems are
       C08_copy_is_dbl_F      the copy = dbl v mk (F v f) up to the new node identities, for ALL v and f:
                              F plus one extra leaf copy under every VISITED node answered True or
                              SkipBranch(and_self=False)  (known finding D24, pinned by the suite), and
       C08_copy_refused_iff   the call raises UniqueConstraintError iff that tree has two siblings with one data_id.
     "in place = copying" as the English says it holds iff no visited node is answered True or
     SkipBranch(and_self=False) (C08_copy_is_F_iff, an iff): that is (2/3)^n of the verdict assignments when every
     node is visited, and for a bool-valued predicate (True/False only) iff NOTHING is kept
     (C08_copy_is_F_for_bool_predicates) -- every bool-valued predicate that accepts at least one visited node is
     in the D24 region; outside it acceptance is possible only through SelectBranch.  The size of the
     difference is exact: C08_copy_size, C08_copy_occurrences.  The full statement is kept and refuted twice
     (C08_copy_refuted, C08_copy_can_fail_refuted).
   * "The copying form leaves the source untouched" is NOT a theorem: [filtered] is a pure function, the clause is
     true of the model by construction and no model change could break it.  It is checked on every case by the
     harness oracle (pointer snapshot + rendering of the source before/after) and by the correspondence (source
     shape after the copying calls).

   v : nat -> verdict     what the predicate answers on each node (after call_predicate)
   F v f                  the filter spec (structural recursion, stop flag threaded in pre-order)
   kept v f n             the set characterisation of the statement (independent of F's recursion)
   filter_inplace v f     mirror of Node.filter._visit (repaired: D05, D25) on the child list f
   filtered v mk f        mirror of Node._add_filtered with its parent stack (Tree.filtered / copy(predicate=))
   filter_inplace_tr, add_filtered_tr   the same two scans with the predicate calls logged (what run08 evaluates for the logs)
   dbl v mk g             g plus the D24 leaves
   mk : info -> info      how the copying scan re-creates a node (add_child(n) without a kind argument): the identity
                          in a plain Tree, "kind := DEFAULT_CHILD_TYPE" in a TypedTree (CaseC08.remake); the scans
                          themselves never look at kinds, so every theorem holds for every mk *)
From Coq Require Import List ZArith Bool Arith.
From NT Require Import Sx Rose Filter FilterProofs FilterUnique FilterAudit FilterTrace FilterSource CaseC08.  (* CaseC08: so that the correspondence entry point is rebuilt with the theorems *)
From NTGen Require Import Generated.
Import ListNotations.

(* ---- the set of kept nodes ---------------------------------------- *)
(* exactly: accepted and visited, ancestors of those, everything below a select answer *)
Theorem C08_kept_exactly : forall (v : nat -> verdict) (f : forest), NoDup (ids f) ->
  forall n, In n (ids (F v f)) <-> kept v f n.
Proof. exact F_ids_kept. Qed.
Print Assumptions C08_kept_exactly.

(* once each *)
Theorem C08_once_each : forall v f, NoDup (ids f) -> NoDup (ids (F v f)).
Proof. exact F_NoDup. Qed.
Print Assumptions C08_once_each.

(* original order (pre-order sequence of the result is a subsequence of the original one)
   and original ancestry (the result is obtained by deleting branches and lifting nothing) *)
Theorem C08_subforest : forall v f, emb (F v f) f /\ sublist (ids (F v f)) (ids f).
Proof. exact F_subforest. Qed.
Print Assumptions C08_subforest.

Theorem C08_nodes_and_parents_preserved : forall v f,
  (forall t', In t' (pre_f (F v f)) ->
     exists t, In t (pre_f f) /\ rid t = rid t' /\ rinfo t = rinfo t' /\ emb (rch t') (rch t)) /\
  (forall p c, child_in (F v f) p c -> child_in f p c).
Proof. exact F_nodes_parents. Qed.
Print Assumptions C08_nodes_and_parents_preserved.

(* ... and conversely every kept node keeps its place: top-level stays top-level,
   a child of p stays a child of p (ancestry preserved in both directions) *)
Theorem C08_kept_nodes_keep_their_place : forall v f, NoDup (ids f) ->
  (forall c, In c (map rid f) -> In c (ids (F v f)) -> In c (map rid (F v f))) /\
  (forall p c, child_in f p c -> In c (ids (F v f)) -> child_in (F v f) p c).
Proof. exact F_places_kept. Qed.
Print Assumptions C08_kept_nodes_keep_their_place.

(* the ingredients of [kept], declaratively: reached = every proper ancestor answered
   True / False(None); listed in pre-order; visited = the reached nodes before the first stop *)
Theorem C08_reached_declarative : forall v f, NoDup (ids f) ->
  forall n, In n (reach v f) <-> exists t, In t (pre_f f) /\ rid t = n /\ all_open v f t.
Proof. exact reach_decl. Qed.
Print Assumptions C08_reached_declarative.

Theorem C08_reached_in_preorder : forall v f, sublist (reach v f) (ids f).
Proof. exact reach_order. Qed.
Print Assumptions C08_reached_in_preorder.

Theorem C08_visited_declarative : forall v f n,
  In n (visited v f) <-> exists a b, reach v f = a ++ n :: b /\ has_stop v (a ++ [n]) = false.
Proof. exact visited_decl. Qed.
Print Assumptions C08_visited_declarative.

(* the clauses of the statement one by one, as consequences of the characterisation:
   accepted nodes are kept, a select answer keeps the whole branch *)
Theorem C08_accepted_kept : forall v f t, NoDup (ids f) -> In t (pre_f f) -> In (rid t) (visited v f) ->
  (accepts (v (rid t)) = true -> In (rid t) (ids (F v f))) /\
  (v (rid t) = VSelect -> forall n, In n (ids_t t) -> In n (ids (F v f))).
Proof. exact accepted_kept. Qed.
Print Assumptions C08_accepted_kept.

(* a node answered with the skip signal (and_self None/True) or stop is dropped *)
Theorem C08_rejected_dropped : forall v f t, NoDup (ids f) -> In t (pre_f f) -> In (rid t) (reach v f) ->
  v (rid t) = VSkip \/ v (rid t) = VStop -> ~ In (rid t) (ids (F v f)).
Proof. exact rejected_dropped. Qed.
Print Assumptions C08_rejected_dropped.

(* nothing below a node answered skip (either and_self) or stop is kept *)
Theorem C08_nothing_below_skip : forall v f t n, NoDup (ids f) -> In t (pre_f f) -> In (rid t) (reach v f) ->
  opens (v (rid t)) = false -> v (rid t) <> VSelect -> In n (ids (rch t)) -> ~ In n (ids (F v f)).
Proof. exact closed_drops_below. Qed.
Print Assumptions C08_nothing_below_skip.

(* ---- the in-place form -------------------------------------------- *)
Theorem C08_inplace_is_F : forall v f, NoDup (ids f) -> filter_inplace v f = F v f.
Proof. exact filter_inplace_is_F. Qed.
Print Assumptions C08_inplace_is_F.

(* return value (must_keep) and stop flag of the scan *)
Theorem C08_inplace_flags : forall v s f, NoDup (ids f) ->
  ip_visit v s f = (fst (F_f v s f), negb (is_nil (fst (F_f v s f))), snd (F_f v s f)).
Proof. exact ip_visit_is_F. Qed.
Print Assumptions C08_inplace_flags.

(* Node.filter on the branch below node n (the start node itself is not asked):
   its child list is filtered as a forest, everything outside the branch stays *)
Theorem C08_branch_inplace : forall v n f, NoDup (ids f) ->
  map (upd_at n (filter_inplace v)) f = map (upd_at n (F v)) f.
Proof. exact branch_inplace_is_F. Qed.
Print Assumptions C08_branch_inplace.

Theorem C08_branch_inplace_nodes : forall v n f t, NoDup (ids f) -> In t (pre_f f) -> rid t = n ->
  forall m, In m (ids (map (upd_at n (filter_inplace v)) f)) <->
            (In m (ids f) /\ ~ In m (ids (rch t))) \/ kept v (rch t) m.
Proof. exact branch_inplace_nodes. Qed.
Print Assumptions C08_branch_inplace_nodes.

(* the whole tree after Node.filter: a sub-forest of the tree before (order, ancestry), every node once *)
Theorem C08_branch_inplace_wellformed : forall v n f, NoDup (ids f) ->
  emb (map (upd_at n (filter_inplace v)) f) f /\
  sublist (ids (map (upd_at n (filter_inplace v)) f)) (ids f) /\
  NoDup (ids (map (upd_at n (filter_inplace v)) f)).
Proof. exact branch_inplace_wf. Qed.
Print Assumptions C08_branch_inplace_wellformed.

(* ---- the copying form (Tree.filtered, Tree.copy(predicate=), Node.…) ---- *)
(* proved: F plus exactly the D24 leaves, modulo node identity; for every
   first allocation index (tree start: 1, branch start: 2, add_self=False: 1) *)
Theorem C08_copy_is_dbl_F : forall v mk f nx, same_modulo_ids (fst (add_filtered v mk f nx)) (dbl v mk (F v f)).
Proof. exact add_filtered_is_dbl_F. Qed.
Print Assumptions C08_copy_is_dbl_F.

(* the IDENTITIES of the copy are new and pairwise distinct: consecutive allocation indices in pre-order.
   (This is a statement about the new node objects only -- it holds for any pre-order allocator -- and NOT the
   clause "kept nodes appear once each"; for that clause see C08_copy_occurrences below.) *)
Theorem C08_copy_nodes_fresh : forall v mk f nx,
  ids (fst (add_filtered v mk f nx)) = seq nx (length (ids (fst (add_filtered v mk f nx)))) /\
  snd (add_filtered v mk f nx) = nx + length (ids (fst (add_filtered v mk f nx))).
Proof. exact add_filtered_ids. Qed.
Print Assumptions C08_copy_nodes_fresh.

Theorem C08_copy_ids_fresh_and_distinct : forall v mk f,
  NoDup (ids (filtered v mk f)) /\ ids (filtered v mk f) = seq 1 (length (ids (filtered v mk f))).
Proof. exact filtered_fresh. Qed.
Print Assumptions C08_copy_ids_fresh_and_distinct.

(* old name of the same statement, kept for files that refer to it; it does not say that kept nodes occur once *)
Theorem C08_copy_once_each : forall v mk f,
  NoDup (ids (filtered v mk f)) /\ ids (filtered v mk f) = seq 1 (length (ids (filtered v mk f))).
Proof. exact filtered_fresh. Qed.
Print Assumptions C08_copy_once_each.

(* Node.filtered / Node.copy(predicate=) of a branch: the start node on top *)
Theorem C08_branch_copy : forall v mk t,
  same_modulo_ids [T 1 (mk (rinfo t)) (fst (add_filtered v mk (rch t) 2))] [T (rid t) (mk (rinfo t)) (dbl v mk (F v (rch t)))].
Proof. exact branch_copy. Qed.
Print Assumptions C08_branch_copy.

Theorem C08_inplace_eq_copy_modulo_dbl : forall v mk f, NoDup (ids f) ->
  same_modulo_ids (filtered v mk f) (dbl v mk (filter_inplace v f)).
Proof. exact inplace_vs_copy. Qed.
Print Assumptions C08_inplace_eq_copy_modulo_dbl.

(* "kept nodes appear once each" for the copying form, precisely.  The copy equals dbl v mk (F v f) position by
   position up to the new identities (same shape; same payloads: C08_copy_payloads).  In dbl v mk (F v f), which
   still carries the SOURCE identities: a source node that is not kept does not occur; a kept one occurs exactly
   once; a visited one answered True / SkipBranch(and_self=False) occurs exactly twice -- the occurrence that
   carries its kept children, and one extra leaf [T id (mk i) []] placed first among those children (definition
   of dbl_t).  So a kept node's data occurs twice in the copy inside the D24 region, once outside. *)
Theorem C08_copy_occurrences : forall v mk f n, NoDup (ids f) ->
  let k := count_occ Nat.eq_dec (ids (dbl v mk (F v f))) n in
  (~ kept v f n -> k = 0) /\
  (kept v f n -> ~ (In n (visited v f) /\ doubled (v n) = true) -> k = 1) /\
  (In n (visited v f) -> doubled (v n) = true -> k = 2).
Proof. exact copy_occurrences. Qed.
Print Assumptions C08_copy_occurrences.

Theorem C08_copy_payloads : forall v mk f nx,
  map rinfo (pre_f (fst (add_filtered v mk f nx))) = map rinfo (pre_f (dbl v mk (F v f))).
Proof. exact copy_payloads. Qed.
Print Assumptions C08_copy_payloads.

(* the copy has exactly one node more than F per visited node answered True / SkipBranch(and_self=False) *)
Theorem C08_copy_size : forall v mk f nx,
  length (ids (fst (add_filtered v mk f nx))) = length (ids (F v f)) + length (filter (fun n => doubled (v n)) (visited v f)).
Proof. exact copy_size. Qed.
Print Assumptions C08_copy_size.

(* THE EXACT REGION of D24 (plain tree): the copying form gives the result the property states
   iff no VISITED node is answered True or SkipBranch(and_self=False) *)
Theorem C08_copy_is_F_iff : forall v f,
  same_modulo_ids (filtered v (fun i => i) f) (F v f) <-> (forall n, In n (visited v f) -> doubled (v n) = false).
Proof. exact copy_is_F_iff. Qed.
Print Assumptions C08_copy_is_F_iff.

(* ... for every bool-valued predicate: iff nothing at all is kept *)
Theorem C08_copy_is_F_for_bool_predicates : forall v f, NoDup (ids f) -> (forall n, v n = VTrue \/ v n = VFalse) ->
  (same_modulo_ids (filtered v (fun i => i) f) (F v f) <-> F v f = []).
Proof. exact copy_is_F_bool. Qed.
Print Assumptions C08_copy_is_F_for_bool_predicates.

(* a sufficient condition on all nodes (weaker than C08_copy_is_F_iff, kept) *)
Theorem C08_copy_is_F_outside_D24 : forall v f,
  (forall n, In n (ids f) -> v n <> VTrue /\ v n <> VSkipKeepSelf) -> same_modulo_ids (filtered v (fun i => i) f) (F v f).
Proof. exact filtered_is_F_outside_D24. Qed.
Print Assumptions C08_copy_is_F_outside_D24.

(* the full statement of the property for the copying form, and its refutation
   (known finding D24) on the suite's own fixture and predicate:
   tests/test_core.py::TestCopy::test_filtered, `"2" in node.name.lower()` on
   A(a1(a11,a12),a2) B(b1(b11)) *)
Definition C08_copy_full_statement : Prop :=
  forall v f, same_modulo_ids (filtered v (fun i => i) f) (F v f).

Definition nd (id : nat) (ch : list rt) : rt := T id (I (Z.of_nat id) (Z.of_nat id) 0 true [] (DInt (Z.of_nat id)) None []) ch.
(*                 A      a1     a11      a12      a2       B      b1     b11 *)
Definition fixture : forest := [nd 1 [nd 2 [nd 3 []; nd 4 []]; nd 5 []]; nd 6 [nd 7 [nd 8 []]]].
Definition pred_2_in_name (n : nat) : verdict := if (Nat.eqb n 4 || Nat.eqb n 5)%bool then VTrue else VFalse.

Theorem C08_copy_refuted : ~ C08_copy_full_statement.
Proof.
  intros H. specialize (H pred_2_in_name fixture). vm_compute in H. discriminate H.
Qed.
Print Assumptions C08_copy_refuted.

(* ---- the public entry points (optional predicate) -------------------- *)
Theorem C08_api_without_predicate : forall mk f nx,
  api_filter None f = EValue /\ api_filtered mk None f nx = EValue /\
  api_copy mk None f nx = copy_result (fst (copy_f f nx)) /\
  same_modulo_ids (fst (copy_f f nx)) f /\
  ids (fst (copy_f f nx)) = seq nx (length (ids f)).
Proof. exact api_without_predicate. Qed.
Print Assumptions C08_api_without_predicate.

Theorem C08_api_with_predicate : forall v mk f nx, NoDup (ids f) ->
  api_filter (Some v) f = Ok (F v f) /\
  api_filtered mk (Some v) f nx = copy_result (fst (add_filtered v mk f nx)) /\
  api_copy mk (Some v) f nx = copy_result (fst (add_filtered v mk f nx)) /\
  same_modulo_ids (fst (add_filtered v mk f nx)) (dbl v mk (F v f)).
Proof. exact api_with_predicate. Qed.
Print Assumptions C08_api_with_predicate.

(* add_child refuses a second child with one data_id (UniqueConstraintError): the copying form
   is refused iff the tree it would build -- F plus the D24 leaves -- has two siblings with one data_id *)
Theorem C08_copy_refused_iff : forall v mk f nx,
  api_filtered mk (Some v) f nx = (if sib_dup (dbl v mk (F v f)) then EUnique else Ok (fst (add_filtered v mk f nx))) /\
  api_copy mk (Some v) f nx = api_filtered mk (Some v) f nx.
Proof. exact copy_refused_iff. Qed.
Print Assumptions C08_copy_refused_iff.

(* never on a legal tree in which no node has a child with the node's own data_id; the filter spec
   itself (no D24 leaves) maps legal trees to legal trees; plain copies are never refused *)
Theorem C08_copy_not_refused : forall v mk, (forall i, i_did (mk i) = i_did i) -> forall f nx, sib_dup f = false -> pc_dup f = false ->
  api_filtered mk (Some v) f nx = Ok (fst (add_filtered v mk f nx)).
Proof. exact copy_not_refused. Qed.
Print Assumptions C08_copy_not_refused.

Theorem C08_F_legal : forall v f, sib_dup f = false -> sib_dup (F v f) = false.
Proof. exact F_legal. Qed.
Print Assumptions C08_F_legal.

Theorem C08_plain_copy_not_refused : forall mk f nx, sib_dup f = false -> api_copy mk None f nx = Ok (fst (copy_f f nx)).
Proof. exact plain_copy_not_refused. Qed.
Print Assumptions C08_plain_copy_not_refused.

(* part of the known finding D24: on a legal tree (a clone directly below its original, both accepted)
   the copying form raises while the in-place form succeeds -- the statement "the in-place and the
   copying form give the same result" fails outright there *)
Definition C08_copy_never_fails_statement : Prop :=
  forall v f nx, NoDup (ids f) -> sib_dup f = false -> exists g, api_filtered (fun i => i) (Some v) f nx = Ok g.
Definition clone_below : forest :=
  [T 1 (I 7 7 0 true [] (DInt 7) None []) [T 2 (I 7 7 0 true [] (DInt 7) None []) []]].
Theorem C08_copy_can_fail_refuted : ~ C08_copy_never_fails_statement.
Proof.
  intros H. destruct (H (fun _ => VTrue) clone_below 1) as [g Hg].
  - apply nodupb_sound. vm_compute. reflexivity.
  - vm_compute. reflexivity.
  - vm_compute in Hg. discriminate Hg.
Qed.
Print Assumptions C08_copy_can_fail_refuted.

Example C08_clone_below :
  NoDup (ids clone_below) /\ sib_dup clone_below = false /\ pc_dup clone_below = true /\
  api_filter (Some (fun _ => VTrue)) clone_below = Ok clone_below /\
  api_filtered (fun i => i) (Some (fun _ => VTrue)) clone_below 1 = EUnique /\
  sib_dup fixture = false /\ pc_dup fixture = false.
Proof. split; [apply nodupb_sound; vm_compute; reflexivity|vm_compute; repeat split; reflexivity]. Qed.

(* ---- stop -------------------------------------------------------------- *)
(* a stop answer among the reached nodes: the stopping node s is the last call,
   and every kept node lies strictly before s in pre-order ... *)
Theorem C08_stop_drops_the_rest : forall v f, has_stop v (reach v f) = true ->
  exists a s b, ids f = a ++ s :: b /\ v s = VStop /\
    calls v f = visited v f ++ [s] /\ incl (ids (F v f)) a.
Proof. exact stop_drops_the_rest. Qed.
Print Assumptions C08_stop_drops_the_rest.

(* ... while everything accepted before it is kept *)
Theorem C08_stop_keeps_accepted : forall v f, NoDup (ids f) ->
  forall n, In n (visited v f) -> accepts (v n) = true -> In n (ids (F v f)).
Proof. exact stop_keeps_accepted. Qed.
Print Assumptions C08_stop_keeps_accepted.

Theorem C08_no_stop : forall v f, has_stop v (reach v f) = false ->
  calls v f = reach v f /\ visited v f = reach v f.
Proof. exact no_stop_no_cut. Qed.
Print Assumptions C08_no_stop.

(* THE CALL TRACE OF THE EXECUTABLE SCANS.  [filter_inplace_tr] / [add_filtered_tr] are the two scans with the
   predicate calls logged at the place of call_predicate (the functions run08 evaluates for the logs):
   forgetting the log gives exactly the scans the theorems above are about, and the log is the spec's call list
   [calls v f] = the reached nodes in pre-order up to and including the first stop answer: nothing is asked
   below a skip / select answer, nothing twice, nothing after a stop *)
Theorem C08_inplace_trace : forall v f, filter_inplace_tr v f = (filter_inplace v f, calls v f).
Proof. exact filter_inplace_tr_spec. Qed.
Print Assumptions C08_inplace_trace.

Theorem C08_copy_trace : forall v mk f nx,
  add_filtered_tr v mk f nx = (fst (add_filtered v mk f nx), snd (add_filtered v mk f nx), calls v f).
Proof. exact add_filtered_tr_spec. Qed.
Print Assumptions C08_copy_trace.

(* ... also for a predicate given by what it does: returned or RAISED signals (instances, classes, StopIteration);
   both scans ask the same nodes *)
Theorem C08_traces_raw : forall (p : nat -> raw) mk f nx,
  snd (filter_inplace_tr (fun n => classify_ip (call_predicate (p n))) f) = calls (fun n => classify_ip (call_predicate (p n))) f /\
  snd (add_filtered_tr (fun n => classify_cp (call_predicate (p n))) mk f nx) = calls (fun n => classify_cp (call_predicate (p n))) f /\
  calls (fun n => classify_ip (call_predicate (p n))) f = calls (fun n => classify_cp (call_predicate (p n))) f.
Proof. exact traces_raw. Qed.
Print Assumptions C08_traces_raw.

(* (older form: a hand-written skeleton that takes only the stopped flag from the scans) *)
(* the calls of the predicate made by both scans (mirrored loops with their
   stopped flags) are the reached nodes up to and including the stopping one:
   nothing is asked below a skip / select answer or after a stop *)
Theorem C08_calls : forall v mk f, af_calls v mk f = calls v f /\ ip_calls v f = calls v f.
Proof. exact calls_spec. Qed.
Print Assumptions C08_calls.

(* ---- returned and raised signals ----------------------------------- *)
Theorem C08_returned_raised_equal :
  (forall c, call_predicate (RRet c) = call_predicate (RRaise c)) /\
  call_predicate RRaiseStopIteration = call_predicate (RRaise CStop) /\
  (forall r, classify_ip (call_predicate r) = classify_cp (call_predicate r)).
Proof. exact (conj returned_raised_same (conj stop_iteration_is_stop classify_same)). Qed.
Print Assumptions C08_returned_raised_equal.

(* ---- obligations on the source text (regenerated on every run) ------ *)
(* the chain of tests of each scan, read off the source in source order, sends every
   canonical predicate result to the arm whose statements are the behaviour the model
   implements for [classify_ip] / [classify_cp] of that result *)
Theorem C08_source_inplace_chain : forall r, chain_verdict ip_table FILTER_INPLACE_CHAIN r = Some (classify_ip r).
Proof. exact inplace_chain_is_classify_ip. Qed.
Print Assumptions C08_source_inplace_chain.

Theorem C08_source_copy_chain : forall r, chain_verdict cp_table FILTER_COPY_CHAIN r = Some (classify_cp r).
Proof. exact copy_chain_is_classify_cp. Qed.
Print Assumptions C08_source_copy_chain.

Theorem C08_source_loop_frames :
  facts_eqb FILTER_INPLACE_PRELOOP [FaNonlocal; FaInitRemove; FaInitKeep] = true /\
  facts_eqb FILTER_INPLACE_PROLOGUE [FaGuardStopped; FaCallPredicate] = true /\
  facts_eqb FILTER_INPLACE_EPILOGUE [] = true /\
  facts_eqb FILTER_INPLACE_POSTLOOP [FaRemoveCollected; FaReturnMustKeep] = true /\
  facts_eqb FILTER_COPY_PRELOOP [] = true /\
  facts_eqb FILTER_COPY_PROLOGUE [FaPush; FaCallPredicate] = true /\
  facts_eqb FILTER_COPY_EPILOGUE [FaPop] = true /\
  facts_eqb FILTER_COPY_POSTLOOP [FaReturn] = true.
Proof. exact loop_frames_are_modelled. Qed.
Print Assumptions C08_source_loop_frames.

(* only the answers on the nodes of the forest matter *)
Theorem C08_ext : forall v w f, (forall n, In n (ids f) -> v n = w n) -> F v f = F w f.
Proof. exact F_ext. Qed.
Print Assumptions C08_ext.

(* a predicate given by what it does (returns / raises): in place (Node.filter's chain of
   tests) = copying (_add_filtered's chain) modulo the D24 leaves; returning or raising a
   signal makes no difference to either form *)
Theorem C08_inplace_eq_copy_raw : forall (p : nat -> raw) mk f, NoDup (ids f) ->
  same_modulo_ids (filtered (fun n => classify_cp (call_predicate (p n))) mk f)
                  (dbl (fun n => classify_cp (call_predicate (p n))) mk (filter_inplace (fun n => classify_ip (call_predicate (p n))) f)).
Proof. exact inplace_vs_copy_raw. Qed.
Print Assumptions C08_inplace_eq_copy_raw.

Theorem C08_returned_raised_same_result : forall (p q : nat -> raw) mk f, NoDup (ids f) ->
  (forall n, In n (ids f) -> call_predicate (p n) = call_predicate (q n)) ->
  filter_inplace (fun n => classify_ip (call_predicate (p n))) f = filter_inplace (fun n => classify_ip (call_predicate (q n))) f /\
  same_modulo_ids (filtered (fun n => classify_cp (call_predicate (p n))) mk f) (filtered (fun n => classify_cp (call_predicate (q n))) mk f).
Proof. exact raw_predicates_equal. Qed.
Print Assumptions C08_returned_raised_same_result.

(* ---- non-vacuity ---------------------------------------------------- *)
Example C08_fixture_wellformed : NoDup (ids fixture).
Proof. apply nodupb_sound. vm_compute. reflexivity. Qed.

(* the suite's predicate: a12, a2 accepted; A, a1 kept as ancestors; the rest dropped *)
Example C08_fixture_F : F pred_2_in_name fixture = [nd 1 [nd 2 [nd 4 []]; nd 5 []]].
Proof. vm_compute. reflexivity. Qed.

Example C08_fixture_kept : kept pred_2_in_name fixture 2 /\ ~ kept pred_2_in_name fixture 3.
Proof.
  split; [|intros H]; apply (F_ids_kept _ _ C08_fixture_wellformed) in H || apply (F_ids_kept _ _ C08_fixture_wellformed);
    vm_compute in *; intuition discriminate.
Qed.

(* all six verdicts at once: 1 False(ancestor), 2 Select, 5 KeepSelf, 7 Skip, 8 True, 9 Stop, 10 True (after the stop) *)
Definition mixed : forest := [nd 1 [nd 2 [nd 3 []; nd 4 []]; nd 5 [nd 6 []]]; nd 7 [nd 11 []]; nd 8 []; nd 9 []; nd 10 []].
Definition mixed_v (n : nat) : verdict :=
  match n with 2 => VSelect | 5 => VSkipKeepSelf | 7 => VSkip | 8 => VTrue | 9 => VStop | 10 => VTrue | 3 => VStop | _ => VFalse end.
Example C08_mixed :
  NoDup (ids mixed) /\
  F mixed_v mixed = [nd 1 [nd 2 [nd 3 []; nd 4 []]; nd 5 []]; nd 8 []] /\
  filter_inplace mixed_v mixed = F mixed_v mixed /\
  map erase (filtered mixed_v (fun i => i) mixed) = map erase [nd 1 [nd 2 [nd 3 []; nd 4 []]; nd 5 [nd 5 []]]; nd 8 [nd 8 []]] /\
  calls mixed_v mixed = [1; 2; 5; 7; 8; 9] /\ visited mixed_v mixed = [1; 2; 5; 7; 8] /\
  has_stop mixed_v (reach mixed_v mixed) = true /\
  map (upd_at 1 (filter_inplace mixed_v)) mixed = [nd 1 [nd 2 [nd 3 []; nd 4 []]; nd 5 []]; nd 7 [nd 11 []]; nd 8 []; nd 9 []; nd 10 []].
Proof. split; [apply nodupb_sound|]; vm_compute; repeat split; reflexivity. Qed.

(* hypotheses of the clause theorems are satisfiable on [mixed]:
   node 5 (visited, SkipBranch(and_self=False)) is kept and its child 6 is not; node 7 (skip) and node 9 (stop)
   are reached and dropped, nothing below / after them is kept; node 2 (select) keeps its whole branch although
   3 would answer stop *)
Example C08_mixed_clauses :
  (exists t5, find_node 5 mixed = Some t5 /\ In 6 (ids (rch t5))) /\
  In 5 (visited mixed_v mixed) /\ accepts (mixed_v 5) = true /\ opens (mixed_v 5) = false /\ mixed_v 5 <> VSelect /\
  In 5 (ids (F mixed_v mixed)) /\ ~ In 6 (ids (F mixed_v mixed)) /\
  In 7 (reach mixed_v mixed) /\ mixed_v 7 = VSkip /\ ~ In 7 (ids (F mixed_v mixed)) /\ ~ In 11 (ids (F mixed_v mixed)) /\
  In 9 (reach mixed_v mixed) /\ mixed_v 9 = VStop /\ ~ In 9 (ids (F mixed_v mixed)) /\ ~ In 10 (ids (F mixed_v mixed)) /\
  mixed_v 2 = VSelect /\ In 2 (visited mixed_v mixed) /\ incl [2; 3; 4] (ids (F mixed_v mixed)) /\
  reach mixed_v mixed = [1; 2; 5; 7; 8; 9; 10].
Proof.
  split; [eexists; split; [vm_compute; reflexivity|apply in_b; vm_compute; reflexivity]|].
  split; [apply in_b; vm_compute; reflexivity|].
  split; [reflexivity|]. split; [reflexivity|]. split; [discriminate|].
  split; [apply in_b; vm_compute; reflexivity|]. split; [apply notin_b; vm_compute; reflexivity|].
  split; [apply in_b; vm_compute; reflexivity|]. split; [reflexivity|].
  split; [apply notin_b; vm_compute; reflexivity|]. split; [apply notin_b; vm_compute; reflexivity|].
  split; [apply in_b; vm_compute; reflexivity|]. split; [reflexivity|].
  split; [apply notin_b; vm_compute; reflexivity|]. split; [apply notin_b; vm_compute; reflexivity|].
  split; [reflexivity|]. split; [apply in_b; vm_compute; reflexivity|].
  split; [apply incl_b; vm_compute; reflexivity|]. vm_compute. reflexivity.
Qed.

(* the declarative description of the reached nodes is inhabited for 5 and empty for 6 *)
Example C08_mixed_reached :
  (exists t, In t (pre_f mixed) /\ rid t = 5 /\ all_open mixed_v mixed t) /\
  ~ (exists t, In t (pre_f mixed) /\ rid t = 6 /\ all_open mixed_v mixed t).
Proof.
  assert (ND : NoDup (ids mixed)) by (apply nodupb_sound; vm_compute; reflexivity).
  split.
  - apply (reach_decl mixed_v mixed ND). apply in_b. vm_compute. reflexivity.
  - intros H. apply (reach_decl mixed_v mixed ND) in H. revert H. apply notin_b. vm_compute. reflexivity.
Qed.

(* outside the D24 region (no True / SkipBranch(and_self=False) answers) the full statement holds non-trivially *)
Definition select_a1 (n : nat) : verdict := if Nat.eqb n 2 then VSelect else VFalse.
Example C08_outside_D24 :
  (forall n, select_a1 n <> VTrue /\ select_a1 n <> VSkipKeepSelf) /\
  F select_a1 fixture = [nd 1 [nd 2 [nd 3 []; nd 4 []]]] /\
  map erase (filtered select_a1 (fun i => i) fixture) = map erase (F select_a1 fixture) /\
  has_stop select_a1 (reach select_a1 fixture) = false.
Proof.
  split; [|vm_compute; repeat split; reflexivity].
  intros n. unfold select_a1. destruct (Nat.eqb n 2); split; discriminate.
Qed.

(* the generated facts this property uses were lifted from the current source *)
Theorem C08_generated_facts_present : GEN_FILTER_OK = true.
Proof. reflexivity. Qed.
Print Assumptions C08_generated_facts_present.

(* a TypedTree: the copying scan re-creates the nodes it adds itself with the default kind (add_child(n) is called
   without a kind), the branch below a select answer is copied by _add_from and keeps its kinds; the in-place form
   does not touch kinds at all *)
Definition tnd (id : nat) (k : Z) (ch : list rt) : rt := T id (I (Z.of_nat id) (Z.of_nat id) 0 true [] (DInt (Z.of_nat id)) (Some [k]) []) ch.
Definition typed_forest : forest := [tnd 1 120 [tnd 2 121 [tnd 3 122 []]; tnd 4 122 []]; tnd 5 122 [tnd 6 120 []]].
Definition typed_v (n : nat) : verdict := match n with 2 => VSelect | 6 => VTrue | _ => VFalse end.
Example C08_typed_kinds :
  map rkind (pre_f (filtered typed_v (remake true) typed_forest))
    = [Some DEFAULT_CHILD_TYPE; Some DEFAULT_CHILD_TYPE; Some [122]; Some DEFAULT_CHILD_TYPE; Some DEFAULT_CHILD_TYPE; Some DEFAULT_CHILD_TYPE]%Z /\
  map rkind (pre_f (filter_inplace typed_v typed_forest)) = [Some [120]; Some [121]; Some [122]; Some [122]; Some [120]]%Z /\
  (forall i, i_did (remake true i) = i_did i) /\ (forall i, remake false i = i).
Proof. split; [vm_compute; reflexivity|]. split; [vm_compute; reflexivity|]. split; intros i; reflexivity. Qed.

(* ====================================================================================== *)
(* audit examples: the suite's fixture and predicate -- the data objects of the copy in pre-order (a12 and a2 twice),
   occurrences of source identities in dbl (F), the size, both sides of the iff, a raised stop in a trace *)
Example C08_fixture_copy :
  map (fun i => i_obj i) (map rinfo (pre_f (filtered pred_2_in_name (fun i => i) fixture))) = [1; 2; 4; 4; 5; 5]%Z /\
  map (fun n => count_occ Nat.eq_dec (ids (dbl pred_2_in_name (fun i => i) (F pred_2_in_name fixture))) n) [1; 2; 3; 4; 5; 6]
    = [1; 1; 0; 2; 2; 0] /\
  visited pred_2_in_name fixture = [1; 2; 3; 4; 5; 6; 7; 8] /\
  filter (fun n => doubled (pred_2_in_name n)) (visited pred_2_in_name fixture) = [4; 5] /\
  length (ids (filtered pred_2_in_name (fun i => i) fixture)) = 6 /\ length (ids (F pred_2_in_name fixture)) = 4 /\
  (forall n, pred_2_in_name n = VTrue \/ pred_2_in_name n = VFalse) /\
  F pred_2_in_name fixture <> [].
Proof.
  refine (conj _ (conj _ (conj _ (conj _ (conj _ (conj _ (conj _ _))))))); try (vm_compute; reflexivity).
  - intros n. unfold pred_2_in_name. destruct (Nat.eqb n 4 || Nat.eqb n 5)%bool; [left|right]; reflexivity.
  - vm_compute. discriminate.
Qed.

Definition raising (n : nat) : raw := match n with 2 => RRaise CSelect | 5 => RRaise (CSkip (Some false)) | 7 => RRaise (CSkip None) | 8 => RBool true | 9 => RRaiseStopIteration | _ => RNone end.
Example C08_trace_raised :
  filter_inplace_tr (fun n => classify_ip (call_predicate (raising n))) mixed
    = ([nd 1 [nd 2 [nd 3 []; nd 4 []]; nd 5 []]; nd 8 []], [1; 2; 5; 7; 8; 9]) /\
  snd (add_filtered_tr (fun n => classify_cp (call_predicate (raising n))) (fun i => i) mixed 1) = [1; 2; 5; 7; 8; 9].
Proof. split; vm_compute; reflexivity. Qed.

(* ---- histories: filter, change, filter again ------------------------------ *)
(* every call is F of the forest as it is at call time and of the answers given then (the model has no state between
   calls; the correspondence runs histories: filter -> a change that keeps the node count -> filter again with the same
   predicate object, and a second tree of the same size).  What is true of "filtering is idempotent": a second pass with
   the SAME answers on the already filtered forest changes nothing and meets no stop ... *)
Theorem C08_second_pass_same_answers : forall v f, F v (F v f) = F v f /\ snd (F_f v false (F v f)) = false.
Proof. exact F_idempotent. Qed.
Print Assumptions C08_second_pass_same_answers.

Theorem C08_inplace_second_pass : forall v f, NoDup (ids f) -> filter_inplace v (filter_inplace v f) = filter_inplace v f.
Proof. exact inplace_second_pass. Qed.
Print Assumptions C08_inplace_second_pass.

(* ... and nothing more: once a node is re-keyed so that the predicate now rejects it (same predicate, same node
   count), the second pass must drop it -- a memo "same predicate, same size => nothing to do" is wrong *)
Definition rekeyed (n : nat) : verdict := if Nat.eqb n 4 then VSkip else pred_2_in_name n.
Example C08_second_pass_after_change :
  let g := filter_inplace pred_2_in_name fixture in
  length (ids g) = 4 /\ filter_inplace pred_2_in_name g = g /\
  filter_inplace rekeyed g = [nd 1 [nd 5 []]] /\ filter_inplace rekeyed g <> g.
Proof. cbv zeta. refine (conj _ (conj _ (conj _ _))); vm_compute; try reflexivity. discriminate. Qed.

(* Glue C08 <-> C04/C07 (theories/Glue/GlueFilter.v).  The copying form above ([filtered], Node.
   _add_filtered) against what the mutation machine (Mut/Machine.v) does for "Tree.copy(), then filter the
   copy in place": [op_tree_copy] allocates the copy node by node (fresh identities in pre-order),
   [op_filter] on the copy is [F] of it (C04_filter).  [Ren v v' a b]: b is a with other identities, and v'
   answers for a node of b what v answers for the node of a it was copied from.  F commutes with such a
   renumbering; hence copy-then-filter = F of the source modulo identity, and filtered() = that modulo
   identity and [dbl] (the leaf copies of D24). *)
From NT Require Machine WF EffectsMore GlueFilter.

Theorem C08_F_commutes_with_renumbering : forall v v' f f',
  Forall2 (GlueFilter.Ren v v') f f' -> Forall2 (GlueFilter.Ren v v') (F v f) (F v' f').
Proof. exact GlueFilter.F_commutes_with_renumbering. Qed.
Print Assumptions C08_F_commutes_with_renumbering.

Theorem C08_filtered_is_copy_then_filter : forall w sti st vd r w2 (v : nat -> verdict) (mk : info -> info),
  WF.WFw w -> Machine.get_tree w sti = Some st ->
  (forall k, k < size_f (Machine.forest_of st) ->
     EffectsMore.vof vd (Machine.next w + k) = v (nth k (ids (Machine.forest_of st)) 0)) ->
  (forall x, In x (pre_f (Machine.forest_of st)) -> GlueFilter.cpi (Machine.typed st) None (rinfo x) = rinfo x) ->
  let w1 := snd (Machine.op_tree_copy w sti) in
  let tj := length (Machine.trees w) in
  Machine.op_filter w1 tj 0 vd = (Machine.Ok r, w2) ->
  exists t1 t2,
    Machine.get_tree w1 tj = Some t1 /\ Forall2 (GlueFilter.Ren v (EffectsMore.vof vd)) (Machine.forest_of st) (Machine.forest_of t1) /\
    Machine.get_tree w2 tj = Some t2 /\ Machine.forest_of t2 = F (EffectsMore.vof vd) (Machine.forest_of t1) /\
    same_modulo_ids (Machine.forest_of t2) (F v (Machine.forest_of st)) /\
    same_modulo_ids (filtered v mk (Machine.forest_of st)) (dbl (EffectsMore.vof vd) mk (Machine.forest_of t2)) /\
    Machine.get_tree w2 sti = Some st.
Proof. exact GlueFilter.copy_then_filter_is_filtered. Qed.
Print Assumptions C08_filtered_is_copy_then_filter.

(* non-vacuity: a(1) > b(2), c(3); copied to 4 > 5, 6; the predicate says False / True / SkipBranch *)
Definition c08g_dd (z : Z) : Machine.dat := Machine.D z z z false [z].
Definition c08g_w : Machine.world :=
  Machine.run [Machine.ONewTree false None; Machine.OAdd 0 0 (c08g_dd 1) None None Machine.BNone;
               Machine.OAdd 0 1 (c08g_dd 2) None None Machine.BNone; Machine.OAdd 0 0 (c08g_dd 3) None None Machine.BNone] Machine.empty_world.
Definition c08g_vsrc : Machine.verdicts := [(1, Machine.VFalse); (2, Machine.VTrue); (3, Machine.VSkip)].
Definition c08g_vcopy : Machine.verdicts := [(4, Machine.VFalse); (5, Machine.VTrue); (6, Machine.VSkip)].
Example C08_filtered_is_copy_then_filter_nonvacuous :
  exists st r w2,
    WF.wf_world_b c08g_w = true /\ Machine.get_tree c08g_w 0 = Some st /\
    (forall k, k < size_f (Machine.forest_of st) ->
       EffectsMore.vof c08g_vcopy (Machine.next c08g_w + k) = EffectsMore.vof c08g_vsrc (nth k (ids (Machine.forest_of st)) 0)) /\
    (forall x, In x (pre_f (Machine.forest_of st)) -> GlueFilter.cpi (Machine.typed st) None (rinfo x) = rinfo x) /\
    Machine.op_filter (snd (Machine.op_tree_copy c08g_w 0)) 1 0 c08g_vcopy = (Machine.Ok r, w2) /\
    map rid (pre_f (Machine.forest_of (nth 1 (Machine.trees w2) (Machine.TS [] [] [] false None)))) = [4; 5] /\
    map rid (pre_f (F (EffectsMore.vof c08g_vsrc) (Machine.forest_of st))) = [1; 2].
Proof.
  eexists _, _, _. split; [vm_compute; reflexivity|]. split; [vm_compute; reflexivity|]. split; [|split; [|split; [vm_compute; reflexivity|split; vm_compute; reflexivity]]].
  - intros k Hk. do 3 (destruct k as [|k]; [vm_compute; reflexivity|]). exfalso. vm_compute in Hk. do 3 apply le_S_n in Hk. inversion Hk.
  - intros x Hx. vm_compute in Hx. destruct Hx as [<-|[<-|[<-|[]]]]; vm_compute; reflexivity.
Qed.
