(* placeholder, replaced below *)
From Coq Require Import List.
From NT Require Import Sx Rose Traverse.
Theorem C06_placeholder : forall t, iter_pre t = iter_pre t.
Proof. reflexivity. Qed.
Print Assumptions C06_placeholder.
