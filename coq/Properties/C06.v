(* C06 — Traversals visit each node once in documented order and obey control signals.
   Statements only; the model is theories/Forest/Traverse.v (Node.iterator, Tree.iterator,
   Node.visit, Tree.visit, call_traversal_cb), proofs are in TraverseProofs.v (once-only,
   pre/post), TraverseLevelOrd.v (level orders, fuel), TraverseVisit.v / TraverseSkip.v
   (continue / skip callbacks), TraverseStop.v (stop signals, errors), TraverseDyn.v (arbitrary
   stateful callbacks), TraverseSpec.v.

   Vocabulary (all defined on the tree structure, none by the recursion of the model):
     before l x y        x occurs strictly before y in the list l
     anc_t t x y         x is a proper ancestor of y inside tree t   (anc_f: inside a forest)
     left_f f x y        x lies in an earlier sibling sub-tree than y, at any depth of forest f
     depth_f f x d       x has depth d in f (top level = 0)
     level_rel rv tg     "(depth, position) lexicographic", level d right-to-left iff
                         level_dir rv tg d = xorb rv (tg && odd d)
     branch t a          the nodes of start node t's branch (with t iff a = add_self)
     subseq l m          l is a subsequence of m *)
From Coq Require Import List ZArith Bool Arith Permutation.
From NT Require Import Sx Rose Traverse TraverseProofs TraverseLevelOrd TraverseVisit TraverseSkip TraverseStop TraverseDyn TraverseSpec.
From NTGen Require Import Generated.
Import ListNotations.

(* ------------------------------------------------------------------ *)
(* 1. every method yields every node of the branch exactly once        *)
(* ------------------------------------------------------------------ *)

Theorem C06_iterator_permutation : forall (t : rt) (m : meth) (add_self : bool) (l : list rt),
  iterator t m add_self = Some l -> Permutation l (branch t add_self).
Proof. exact iterator_perm. Qed.
Print Assumptions C06_iterator_permutation.

Theorem C06_iterator_no_repetition : forall (t : rt) (m : meth) (add_self : bool) (l : list rt),
  NoDup (ids_t t) -> iterator t m add_self = Some l -> NoDup (map rid l).
Proof. exact iterator_nodup. Qed.
Print Assumptions C06_iterator_no_repetition.

(* Node.iterator knows exactly the six ordered methods (NotImplementedError otherwise) *)
Theorem C06_iterator_methods : forall (t : rt) (m : meth) (add_self : bool),
  iterator t m add_self = None <-> (m = RANDOM \/ m = UNORDERED).
Proof. exact iterator_supported. Qed.
Print Assumptions C06_iterator_methods.

(* add_self: the start node comes first, or last for post-order *)
Theorem C06_add_self_position : forall (t : rt) (m : meth) (l : list rt),
  iterator t m true = Some l ->
  exists body, iterator t m false = Some body /\ l = if is_post m then body ++ [t] else t :: body.
Proof. exact iterator_add_self. Qed.
Print Assumptions C06_add_self_position.

(* Tree.iterator: every method, UNORDERED and RANDOM included, lists a permutation of the nodes
   (hypothesis: the registry _node_by_id holds exactly the nodes of the forest — checked on every case) *)
Theorem C06_tree_iterator_permutation : forall (f : forest) (reg : list rt) (rnd : list nat) (m : meth),
  Permutation reg (pre_f f) ->
  exists l, tree_iterator f reg rnd m = Some l /\ Permutation l (pre_f f).
Proof. exact tree_iterator_perm. Qed.
Print Assumptions C06_tree_iterator_permutation.

(* ------------------------------------------------------------------ *)
(* 2. the documented order of each ordered method, as a relation       *)
(* ------------------------------------------------------------------ *)

(* order_rel m f x y :=
     PRE         anc_f f x y \/ left_f f x y
     POST        anc_f f y x \/ left_f f x y
     LEVEL       level_rel false false f x y      LEVEL_RTL    level_rel true  false f x y
     ZIGZAG      level_rel false true  f x y      ZIGZAG_RTL   level_rel true  true  f x y
   level_rel rv tg f x y := exists dx dy, depth_f f x dx /\ depth_f f y dy /\
     (dx < dy \/ (dx = dy /\ if level_dir rv tg dx then left_f f y x else left_f f x y)) *)
Theorem C06_order_relation : forall (s : rt) (m : meth) (l : list rt) (x y : nat),
  iterator s m false = Some l ->
  NoDup (ids (rch s)) -> In x (ids (rch s)) -> In y (ids (rch s)) -> x <> y ->
  (before (map rid l) x y <-> order_rel m (rch s) x y).
Proof. exact iterator_order. Qed.
Print Assumptions C06_order_relation.

Theorem C06_tree_order_relation : forall (f : forest) (reg : list rt) (rnd : list nat) (m : meth) (l : list rt) (x y : nat),
  m <> RANDOM -> m <> UNORDERED -> tree_iterator f reg rnd m = Some l ->
  NoDup (ids f) -> In x (ids f) -> In y (ids f) -> x <> y ->
  (before (map rid l) x y <-> order_rel m f x y).
Proof. exact tree_iterator_order. Qed.
Print Assumptions C06_tree_order_relation.

(* depth is a function on the nodes, and inside one level "earlier sibling sub-tree" coincides with
   "earlier document position": the level orders are lexicographic on (depth, +/- document position) *)
Theorem C06_depth_well_defined : forall (f : forest) (x : nat),
  NoDup (ids f) -> In x (ids f) -> exists d, depth_f f x d /\ forall d', depth_f f x d' -> d' = d.
Proof. exact depth_exists_unique. Qed.
Print Assumptions C06_depth_well_defined.

Theorem C06_same_level_document_order : forall (f : forest) (x y d : nat),
  NoDup (ids f) -> depth_f f x d -> depth_f f y d -> x <> y -> (left_f f x y <-> before (ids f) x y).
Proof. exact same_depth_docpos. Qed.
Print Assumptions C06_same_level_document_order.

(* the direction of level k: LEVEL always left-to-right, LEVEL_RTL always right-to-left,
   ZIGZAG right-to-left on odd depths, ZIGZAG_RTL right-to-left on even depths *)
Theorem C06_level_direction : forall (m : meth) (rv tg : bool) (k : nat),
  level_flags m = Some (rv, tg) ->
  level_dir rv tg k = match m with
                      | LEVEL => false | LEVEL_RTL => true
                      | ZIGZAG => Nat.odd k | _ => Nat.even k end.
Proof. exact level_direction. Qed.
Print Assumptions C06_level_direction.

(* the level methods list level after level (nodes of depth k in pre-order, reversed when rtl) *)
Theorem C06_level_by_level : forall (t : rt) (rv tg : bool),
  iter_level_n t rv tg = levels_spec rv tg (rch t) (size t).
Proof. exact iter_level_n_levels. Qed.
Print Assumptions C06_level_by_level.

(* the loop bound of the model's _iter_level / _visit_level is never the reason to stop *)
Theorem C06_level_fuel_sufficient : forall (t : rt) (rv tg : bool) (k : nat),
  iter_level (level_fuel t + k) rv tg (rch t) = iter_level_n t rv tg.
Proof. exact iter_level_n_fuel. Qed.
Print Assumptions C06_level_fuel_sufficient.

(* tight form: the while loop of _iter_level needs only calc_height() iterations *)
Theorem C06_level_loop_bounded_by_height : forall (t : rt) (rv tg : bool) (k : nat),
  iter_level (height t + k) rv tg (rch t) = iter_level_n t rv tg.
Proof. exact iter_level_height_fuel. Qed.
Print Assumptions C06_level_loop_bounded_by_height.

Theorem C06_visit_level_fuel_sufficient : forall (cb : cbT) (s : rt) (k : nat) (calls : list nat),
  visit_level (level_fuel s + k) cb (rch s) calls = visit_level (level_fuel s) cb (rch s) calls.
Proof. exact visit_level_fuel_enough. Qed.
Print Assumptions C06_visit_level_fuel_sufficient.

(* ------------------------------------------------------------------ *)
(* 3. visit(): same order as the iterator; skip                        *)
(* ------------------------------------------------------------------ *)

(* visit knows pre, post and level order; anything else raises NotImplementedError before any call *)
Theorem C06_visit_methods : forall (cb : cbT) (s : rt) (m : meth) (add_self : bool),
  visit_supported m = false -> visit cb s m add_self = ([], VRaise E_NOTIMPL).
Proof. exact visit_unsupported. Qed.
Print Assumptions C06_visit_methods.

(* a callback that never signals is called with exactly the iterator's sequence; visit returns None *)
Theorem C06_visit_follows_iterator : forall (cb : cbT) (s : rt) (m : meth) (add_self : bool),
  all_continue cb -> visit_supported m = true ->
  exists l, iterator s m add_self = Some l /\ visit cb s m add_self = (map rid l, VReturn None).
Proof. exact visit_all_continue. Qed.
Print Assumptions C06_visit_follows_iterator.

(* skip (pre-order and level order): the calls are the iterator's sequence with exactly the nodes
   removed that have a proper ancestor, itself called, at which the callback skips.
   A subsequence of a duplicate-free list is determined by its members, so this fixes the calls. *)
Theorem C06_skip_suppresses_exactly_descendants :
  forall (cb : cbT) (sk : nat -> bool) (s : rt) (m : meth) (add_self : bool) (l : list rt),
  skip_only cb sk -> m = PRE \/ m = LEVEL -> NoDup (ids_t s) -> iterator s m add_self = Some l ->
  exists tr, visit cb s m add_self = (tr, VReturn None) /\ subseq tr (map rid l) /\
    forall y, In y tr <-> (In y (map rid l) /\ ~ skipped_above sk s (map rid l) y).
Proof. exact visit_skip_char. Qed.
Print Assumptions C06_skip_suppresses_exactly_descendants.

Theorem C06_skip_keeps_order :
  forall (cb : cbT) (sk : nat -> bool) (s : rt) (m : meth) (add_self : bool) (l : list rt),
  skip_only cb sk -> m = PRE \/ m = LEVEL -> NoDup (ids_t s) -> iterator s m add_self = Some l ->
  NoDup (fst (visit cb s m add_self)) /\
  forall x y, before (fst (visit cb s m add_self)) x y -> before (map rid l) x y.
Proof. exact visit_skip_order. Qed.
Print Assumptions C06_skip_keeps_order.

(* the same fact in constructive form: visit = iterator of the tree pruned below the skipping nodes *)
Theorem C06_skip_is_pruning :
  forall (cb : cbT) (sk : nat -> bool) (s : rt) (m : meth) (add_self : bool),
  skip_only cb sk -> m = PRE \/ m = LEVEL ->
  exists l, iterator (prune_start sk add_self s) m add_self = Some l /\
            visit cb s m add_self = (map rid l, VReturn None).
Proof. exact visit_skip_pruned. Qed.
Print Assumptions C06_skip_is_pruning.

(* post-order: descendants precede, a skip signal suppresses nothing *)
Theorem C06_post_order_ignores_skip : forall (cb : cbT) (s : rt) (add_self : bool),
  never_halts cb ->
  exists l, iterator s POST add_self = Some l /\ visit cb s POST add_self = (map rid l, VReturn None).
Proof. exact visit_post_quiet_iter. Qed.
Print Assumptions C06_post_order_ignores_skip.

(* ------------------------------------------------------------------ *)
(* 4. stop signals and errors                                          *)
(* ------------------------------------------------------------------ *)

(* normalisation of every returned / raised shape by call_traversal_cb *)
Theorem C06_signal_shapes : forall (v : option Z) (e : nat),
  call_traversal_cb RetNone = Continue /\
  call_traversal_cb RetSkipCls = Skip /\ call_traversal_cb RetSkipInst = Skip /\
  call_traversal_cb RaiseSkipCls = Skip /\ call_traversal_cb RaiseSkipInst = Skip /\
  call_traversal_cb RetStopCls = Stop None /\ call_traversal_cb (RetStopInst v) = Stop v /\
  call_traversal_cb RaiseStopCls = Stop None /\ call_traversal_cb (RaiseStopInst v) = Stop v /\
  call_traversal_cb RetFalse = Stop None /\
  call_traversal_cb RetStopIterCls = Stop None /\ call_traversal_cb (RetStopIterInst v) = Stop v /\
  call_traversal_cb RaiseStopIterCls = Stop None /\ call_traversal_cb (RaiseStopIterInst v) = Stop v /\
  call_traversal_cb RetOther = Err E_VALUE /\ call_traversal_cb (RaiseOther e) = Err e.
Proof. exact signal_shapes. Qed.
Print Assumptions C06_signal_shapes.

(* General law, for ANY stateful callback cb and any cb' that answers like cb but continues where cb
   stops or fails: no call of cb' halts, and either no call of cb halts and both make the same calls,
   or the calls of cb are a prefix of those of cb' whose last call is the first halting one, and
   visit returns the value carried by that signal (re-raises that error). *)
Theorem C06_stop_ends_traversal_at_once : forall (cb cb' : cbT) (s : rt) (m : meth) (add_self : bool),
  mutes cb cb' -> visit_supported m = true ->
  exists tr tr' r, visit cb s m add_self = (tr, r) /\ visit cb' s m add_self = (tr', VReturn None) /\
    ((quiet cb [] tr /\ tr = tr' /\ r = VReturn None) \/
     (exists h, halted cb [] tr h /\ (exists rest, tr' = tr ++ rest) /\ r = vres_of h)).
Proof. exact visit_halt_general. Qed.
Print Assumptions C06_stop_ends_traversal_at_once.

(* stop at the k-th call (0-based), every stop shape: exactly the first k+1 nodes of the iterator's
   order are called and visit returns the carried value *)
Theorem C06_stop_at_kth_call_every_shape :
  forall (r : raw) (v : option Z) (s : rt) (m : meth) (add_self : bool) (k : nat) (l : list rt),
  stop_shape r v -> visit_supported m = true -> iterator s m add_self = Some l -> k < length l ->
  visit (fun calls _ => if Nat.eqb (length calls) k then r else RetNone) s m add_self
  = (firstn (S k) (map rid l), VReturn v).
Proof. exact visit_stop_every_shape. Qed.
Print Assumptions C06_stop_at_kth_call_every_shape.

(* the nine stop shapes are exactly the raw shapes normalised to Stop *)
Theorem C06_stop_shapes_complete : forall (r : raw) (v : option Z),
  stop_shape r v <-> call_traversal_cb r = Stop v.
Proof. exact stop_shape_iff. Qed.
Print Assumptions C06_stop_shapes_complete.

(* any callback that halts (stop or error) at its k-th call and continues otherwise *)
Theorem C06_halt_at_kth_call : forall (cb : cbT) (s : rt) (m : meth) (add_self : bool) (k : nat) (h : halt) (l : list rt),
  at_call cb k (halt_out h) -> visit_supported m = true -> iterator s m add_self = Some l ->
  visit cb s m add_self =
    if k <? length l then (firstn (S k) (map rid l), vres_of h) else (map rid l, VReturn None).
Proof. exact visit_stop_at_call. Qed.
Print Assumptions C06_halt_at_kth_call.

(* ... or at a chosen node: the calls are the iterator's order up to and including that node *)
Theorem C06_halt_at_node : forall (cb : cbT) (s : rt) (m : meth) (add_self : bool) (n : nat) (h : halt) (l : list rt),
  at_node cb n (halt_out h) -> visit_supported m = true -> iterator s m add_self = Some l ->
  (~ In n (map rid l) /\ visit cb s m add_self = (map rid l, VReturn None)) \/
  (exists l1 l2, map rid l = l1 ++ n :: l2 /\ ~ In n l1 /\ visit cb s m add_self = (l1 ++ [n], vres_of h)).
Proof. exact visit_stop_at_node. Qed.
Print Assumptions C06_halt_at_node.

(* ------------------------------------------------------------------ *)
(* 4b. arbitrary stateful callbacks                                    *)
(* ------------------------------------------------------------------ *)

(* whatever the callback answers: no node is called twice and the calls follow the iterator's order *)
Theorem C06_any_callback_calls_in_iterator_order :
  forall (cb : cbT) (s : rt) (m : meth) (add_self : bool) (l : list rt),
  visit_supported m = true -> iterator s m add_self = Some l ->
  subseq (fst (visit cb s m add_self)) (map rid l).
Proof. exact visit_subseq_any. Qed.
Print Assumptions C06_any_callback_calls_in_iterator_order.

Theorem C06_any_callback_no_repetition : forall (cb : cbT) (s : rt) (m : meth) (add_self : bool),
  NoDup (ids_t s) -> NoDup (fst (visit cb s m add_self)).
Proof. exact visit_nodup_any. Qed.
Print Assumptions C06_any_callback_no_repetition.

(* visit depends on the callback only through its answers to the calls actually made *)
Theorem C06_visit_determined_by_answers : forall (cb1 cb2 : cbT) (s : rt) (m : meth) (add_self : bool),
  along (Agr cb1 cb2) [] (fst (visit cb1 s m add_self)) -> visit cb2 s m add_self = visit cb1 s m add_self.
Proof. exact visit_agree. Qed.
Print Assumptions C06_visit_determined_by_answers.

(* skip, for a stateful callback that never halts: suppressed are exactly the nodes below a node whose
   call answered Skip (skipped_dyn cb s tr y := exists x k, nth_error tr k = Some x /\
   call_cb cb x (firstn k tr) = Skip /\ anc_t s x y) *)
Theorem C06_skip_any_callback :
  forall (cb : cbT) (s : rt) (m : meth) (add_self : bool) (l : list rt),
  never_halts cb -> m = PRE \/ m = LEVEL -> NoDup (ids_t s) -> iterator s m add_self = Some l ->
  exists tr, visit cb s m add_self = (tr, VReturn None) /\ subseq tr (map rid l) /\
    forall y, In y tr <-> (In y (map rid l) /\ ~ skipped_dyn cb s tr y).
Proof. exact visit_dyn_skip. Qed.
Print Assumptions C06_skip_any_callback.

(* the run of ANY callback, pre-order and level order: iterator order, minus what lies below a call
   answered Skip, cut after the first call answered with a stop signal or an error *)
Theorem C06_any_callback_run :
  forall (cb : cbT) (s : rt) (m : meth) (add_self : bool) (l : list rt),
  m = PRE \/ m = LEVEL -> NoDup (ids_t s) -> iterator s m add_self = Some l ->
  exists tr tr' r,
    visit cb s m add_self = (tr, r) /\ visit (mute cb) s m add_self = (tr', VReturn None) /\
    subseq tr' (map rid l) /\
    (forall y, In y tr' <-> (In y (map rid l) /\ ~ skipped_dyn (mute cb) s tr' y)) /\
    ((quiet cb [] tr /\ tr = tr' /\ r = VReturn None) \/
     (exists h, halted cb [] tr h /\ (exists rest, tr' = tr ++ rest) /\ r = vres_of h)).
Proof. exact visit_any_callback. Qed.
Print Assumptions C06_any_callback_run.

(* ------------------------------------------------------------------ *)
(* 5. obligations on the tables lifted from the source on this run     *)
(* ------------------------------------------------------------------ *)

(* IterMethod's values are the model's methods in order; Node has an _iter_<value> handler exactly
   for the methods the model's iterator supports and a _visit_<value> handler exactly for pre, post,
   level; _iter_level's defaults and the literal revert/toggle arguments of _iter_level_rtl,
   _iter_zigzag, _iter_zigzag_rtl are the model's level_flags *)
Theorem C06_source_tables_agree :
  handlers_agree ITER_METHODS NODE_ITER_HANDLERS NODE_VISIT_HANDLERS NODE_ITER_LEVEL_FLAGS = true.
Proof. vm_compute. reflexivity. Qed.
Print Assumptions C06_source_tables_agree.

(* ------------------------------------------------------------------ *)
(* non-vacuity                                                         *)
(* ------------------------------------------------------------------ *)

Example C06_nonvacuous :
  let i := I 0 0 0 true [] (DInt 0) None [] in
  let s := T 1 i [T 2 i [T 4 i []; T 5 i []]; T 3 i [T 6 i [T 7 i []]]] in
  let ord m a := option_map (map rid) (iterator s m a) in
  let skip2 : cbT := fun _ x => if Nat.eqb x 2 then RaiseSkipCls else RetNone in
  let stop3 : cbT := fun calls _ => if Nat.eqb (length calls) 3 then RetStopIterInst (Some 9%Z) else RetNone in
  NoDup (ids_t s) /\
  ord PRE false = Some [2; 4; 5; 3; 6; 7] /\ ord POST true = Some [4; 5; 2; 7; 6; 3; 1] /\
  ord LEVEL true = Some [1; 2; 3; 4; 5; 6; 7] /\ ord LEVEL_RTL false = Some [3; 2; 6; 5; 4; 7] /\
  ord ZIGZAG false = Some [2; 3; 6; 5; 4; 7] /\ ord ZIGZAG_RTL false = Some [3; 2; 4; 5; 6; 7] /\
  order_rel ZIGZAG (rch s) 6 4 /\
  skip_only skip2 (fun x => Nat.eqb x 2) /\
  visit skip2 s PRE true = ([1; 2; 3; 6; 7], VReturn None) /\
  visit skip2 s LEVEL false = ([2; 3; 6; 7], VReturn None) /\
  visit skip2 s POST false = ([4; 5; 2; 7; 6; 3], VReturn None) /\
  at_call stop3 3 (halt_out (HStop (Some 9%Z))) /\ stop_shape (RetStopIterInst (Some 9%Z)) (Some 9%Z) /\
  visit stop3 s LEVEL false = ([2; 3; 4; 5], VReturn (Some 9%Z)) /\
  visit stop3 s ZIGZAG false = ([], VRaise E_NOTIMPL).
Proof. exact nonvacuous_example. Qed.

Example C06_nonvacuous_stateful :
  let i := I 0 0 0 true [] (DInt 0) None [] in
  let s := T 1 i [T 2 i [T 4 i []; T 5 i []]; T 3 i [T 6 i [T 7 i []]]] in
  let cb : cbT := fun calls _ => match length calls with 0 => RetSkipInst | 2 => RaiseStopInst (Some 5%Z) | _ => RetNone end in
  never_halts (mute cb) /\ mutes cb (mute cb) /\
  visit (mute cb) s PRE false = ([2; 3; 6; 7], VReturn None) /\
  skipped_dyn (mute cb) s [2; 3; 6; 7] 4 /\
  visit cb s PRE false = ([2; 3; 6], VReturn (Some 5%Z)) /\
  halted cb [] [2; 3; 6] (HStop (Some 5%Z)).
Proof. exact nonvacuous_stateful. Qed.

(* the generated facts this property uses were lifted from the current source *)
Theorem C06_generated_facts_present : GEN_ENUMS_OK = true /\ GEN_TRAVERSE_OK = true.
Proof. split; reflexivity. Qed.
Print Assumptions C06_generated_facts_present.

(* ====================================================================================== *)
(* Glue (theories/Glue/GluePreTraverseSearch.v): "pre-order" is ONE order across the models.  Every enumeration is
   tied to the structural [pre] / [pre_f] of Base/Rose.v - here [iter_pre_eq] (C06), in C09
   SearchProofs.iter_pre_eq / iterator_branch, in C17 ExportProofs.desc_p_snd, in C12 SerLayFacts.lay_nodes /
   lay4_pn, in the mutation machine SurgeryFacts.rows_ids / rows_keys - and the models that were only
   connected through Rose.v are connected directly (parent components included) in C06 / C10 / C12 / C17. *)
From NT Require Search SurgeryFacts GluePreTraverseSearch.

(* C06 <-> C09: the generator of the search model is this model's generator *)
Theorem C06_preorder_is_the_search_models : forall t, iter_pre t = Search.iter_pre t.
Proof. exact GluePreTraverseSearch.traverse_iter_pre_is_search_iter_pre. Qed.
Print Assumptions C06_preorder_is_the_search_models.

Theorem C06_search_iterator_is_iter_pre : forall f s b,
  Search.iterator f s b =
  match s with
  | Search.SRoot => pre_f f
  | Search.SNode t => (if b then [t] else []) ++ iter_pre t
  end.
Proof. exact GluePreTraverseSearch.search_iterator_is_traverse. Qed.
Print Assumptions C06_search_iterator_is_iter_pre.

(* C06 / Rose <-> the rows of the mutation machine (C01-C04, C13, heap): identity and payload of the rows,
   in order, are the pre-order nodes *)
Theorem C06_preorder_is_the_machines_rows : forall f o,
  map GluePreTraverseSearch.row_node (SurgeryFacts.rows o f) = map GluePreTraverseSearch.node_pair (pre_f f).
Proof. exact GluePreTraverseSearch.rows_nodes. Qed.
Print Assumptions C06_preorder_is_the_machines_rows.

(* ====================================================================================== *)
(* Tree.visit (audit 2.1).  [tree_visit] is what run06 executes for Tree.visit; the statements below say for it
   what sections 3, 4, 4b say for Node.visit.  The wrapper passes the system root and add_self = False: the
   callback never sees the root, so only the identities of the forest matter (NoDup (ids f); nothing is asked of the
   root's own identity), and "the iterator" is Tree.iterator of the same method. *)
From NT Require Import TraverseTree.

Theorem C06_tree_visit_is_visit_of_the_root_without_self : forall (cb : cbT) (f : forest) (m : meth),
  tree_visit cb f m = visit cb (sysroot f) m false.
Proof. exact tree_visit_unfold. Qed.
Print Assumptions C06_tree_visit_is_visit_of_the_root_without_self.

Theorem C06_tree_visit_methods : forall (cb : cbT) (f : forest) (m : meth),
  visit_supported m = false -> tree_visit cb f m = ([], VRaise E_NOTIMPL).
Proof. exact tree_visit_unsupported. Qed.
Print Assumptions C06_tree_visit_methods.

(* order and return value without signals: exactly Tree.iterator's sequence *)
Theorem C06_tree_visit_follows_tree_iterator : forall (cb : cbT) (f : forest) (reg : list rt) (rnd : list nat) (m : meth),
  all_continue cb -> visit_supported m = true ->
  exists l, tree_iterator f reg rnd m = Some l /\ tree_visit cb f m = (map rid l, VReturn None).
Proof. exact tree_visit_all_continue. Qed.
Print Assumptions C06_tree_visit_follows_tree_iterator.

(* the system root is never handed to the callback (excludes a wrapper passing add_self = True) *)
Theorem C06_tree_visit_calls_only_forest_nodes : forall (cb : cbT) (f : forest) (m : meth) (x : nat),
  In x (fst (tree_visit cb f m)) -> In x (ids f).
Proof. exact tree_visit_calls_in_forest. Qed.
Print Assumptions C06_tree_visit_calls_only_forest_nodes.

Theorem C06_tree_visit_no_repetition : forall (cb : cbT) (f : forest) (m : meth),
  NoDup (ids f) -> NoDup (fst (tree_visit cb f m)).
Proof. exact tree_visit_nodup. Qed.
Print Assumptions C06_tree_visit_no_repetition.

(* skip: exactly the nodes below a skipping node are suppressed *)
Theorem C06_tree_visit_skip_suppresses_exactly_descendants :
  forall (cb : cbT) (sk : nat -> bool) (f : forest) (reg : list rt) (rnd : list nat) (m : meth) (l : list rt),
  skip_only cb sk -> m = PRE \/ m = LEVEL -> NoDup (ids f) -> tree_iterator f reg rnd m = Some l ->
  exists tr, tree_visit cb f m = (tr, VReturn None) /\ subseq tr (map rid l) /\
    forall y, In y tr <-> (In y (map rid l) /\ ~ exists x, sk x = true /\ anc_f f x y).
Proof. exact tree_visit_skip. Qed.
Print Assumptions C06_tree_visit_skip_suppresses_exactly_descendants.

Theorem C06_tree_visit_skip_any_callback :
  forall (cb : cbT) (f : forest) (reg : list rt) (rnd : list nat) (m : meth) (l : list rt),
  never_halts cb -> m = PRE \/ m = LEVEL -> NoDup (ids f) -> tree_iterator f reg rnd m = Some l ->
  exists tr, tree_visit cb f m = (tr, VReturn None) /\ subseq tr (map rid l) /\
    forall y, In y tr <-> (In y (map rid l) /\ ~ skipped_dyn_f cb f tr y).
Proof. exact tree_visit_skip_any_callback. Qed.
Print Assumptions C06_tree_visit_skip_any_callback.

Theorem C06_tree_visit_post_order_ignores_skip : forall (cb : cbT) (f : forest) (reg : list rt) (rnd : list nat),
  never_halts cb ->
  exists l, tree_iterator f reg rnd POST = Some l /\ tree_visit cb f POST = (map rid l, VReturn None).
Proof. exact tree_visit_post_ignores_skip. Qed.
Print Assumptions C06_tree_visit_post_order_ignores_skip.

(* stop: ends at once, carried value returned, every stop shape / any halting answer / at a node *)
Theorem C06_tree_visit_stop_at_kth_call_every_shape :
  forall (r : raw) (v : option Z) (f : forest) (reg : list rt) (rnd : list nat) (m : meth) (k : nat) (l : list rt),
  stop_shape r v -> visit_supported m = true -> tree_iterator f reg rnd m = Some l -> k < length l ->
  tree_visit (fun calls _ => if Nat.eqb (length calls) k then r else RetNone) f m
  = (firstn (S k) (map rid l), VReturn v).
Proof. exact tree_visit_stop_every_shape. Qed.
Print Assumptions C06_tree_visit_stop_at_kth_call_every_shape.

Theorem C06_tree_visit_halt_at_kth_call :
  forall (cb : cbT) (f : forest) (reg : list rt) (rnd : list nat) (m : meth) (k : nat) (h : halt) (l : list rt),
  at_call cb k (halt_out h) -> visit_supported m = true -> tree_iterator f reg rnd m = Some l ->
  tree_visit cb f m = if k <? length l then (firstn (S k) (map rid l), vres_of h) else (map rid l, VReturn None).
Proof. exact tree_visit_stop_at_call. Qed.
Print Assumptions C06_tree_visit_halt_at_kth_call.

Theorem C06_tree_visit_halt_at_node :
  forall (cb : cbT) (f : forest) (reg : list rt) (rnd : list nat) (m : meth) (n : nat) (h : halt) (l : list rt),
  at_node cb n (halt_out h) -> visit_supported m = true -> tree_iterator f reg rnd m = Some l ->
  (~ In n (map rid l) /\ tree_visit cb f m = (map rid l, VReturn None)) \/
  (exists l1 l2, map rid l = l1 ++ n :: l2 /\ ~ In n l1 /\ tree_visit cb f m = (l1 ++ [n], vres_of h)).
Proof. exact tree_visit_stop_at_node. Qed.
Print Assumptions C06_tree_visit_halt_at_node.

(* any stateful callback *)
Theorem C06_tree_visit_any_callback :
  forall (cb : cbT) (f : forest) (reg : list rt) (rnd : list nat) (m : meth) (l : list rt),
  visit_supported m = true -> tree_iterator f reg rnd m = Some l ->
  subseq (fst (tree_visit cb f m)) (map rid l) /\
  exists tr tr' r, tree_visit cb f m = (tr, r) /\ tree_visit (mute cb) f m = (tr', VReturn None) /\
    ((quiet cb [] tr /\ tr = tr' /\ r = VReturn None) \/
     (exists h, halted cb [] tr h /\ (exists rest, tr' = tr ++ rest) /\ r = vres_of h)).
Proof. exact tree_visit_any_callback. Qed.
Print Assumptions C06_tree_visit_any_callback.

(* Node level, add_self = False: uniqueness is needed only BELOW the start node (audit 2.3) *)
Theorem C06_iterator_no_repetition_without_self : forall (t : rt) (m : meth) (l : list rt),
  NoDup (ids (rch t)) -> iterator t m false = Some l -> NoDup (map rid l).
Proof. exact iterator_nodup_noself. Qed.
Print Assumptions C06_iterator_no_repetition_without_self.

Theorem C06_skip_without_self :
  forall (cb : cbT) (sk : nat -> bool) (s : rt) (m : meth) (l : list rt),
  skip_only cb sk -> m = PRE \/ m = LEVEL -> NoDup (ids (rch s)) -> iterator s m false = Some l ->
  exists tr, visit cb s m false = (tr, VReturn None) /\ subseq tr (map rid l) /\
    forall y, In y tr <-> (In y (map rid l) /\ ~ exists x, sk x = true /\ anc_f (rch s) x y).
Proof. exact visit_skip_char_noself. Qed.
Print Assumptions C06_skip_without_self.

(* the registry as run06 receives it, a list of identities (audit 2.2): if they are a permutation of the forest's
   identities (the flag run06 compares, and the oracle's `reg_ok`), the hypothesis of C06_tree_iterator_permutation
   holds for the node list [reg_nodes f reg] that run06 builds from them *)
Theorem C06_registry_ids_suffice : forall (f : forest) (reg : list nat) (rnd : list nat) (m : meth),
  NoDup (ids f) -> Permutation reg (ids f) ->
  Permutation (reg_nodes f reg) (pre_f f) /\
  exists l, tree_iterator f (reg_nodes f reg) rnd m = Some l /\ Permutation l (pre_f f).
Proof. intros f reg rnd m ND P. split; [exact (reg_bridge f reg ND P)|exact (tree_iterator_perm_ids f reg rnd m ND P)]. Qed.
Print Assumptions C06_registry_ids_suffice.

Example C06_tree_visit_nonvacuous :
  let i := I 0 0 0 true [] (DInt 0) None [] in
  let f := [T 2 i [T 4 i []; T 5 i []]; T 3 i [T 6 i [T 7 i []]]] in
  let skip2 : cbT := fun _ x => if Nat.eqb x 2 then RetSkipCls else RetNone in
  let stop3 : cbT := fun calls _ => if Nat.eqb (length calls) 3 then RetFalse else RetNone in
  NoDup (ids f) /\
  option_map (map rid) (tree_iterator f [] [] LEVEL) = Some [2; 3; 4; 5; 6; 7] /\
  tree_visit cb_continue f LEVEL = ([2; 3; 4; 5; 6; 7], VReturn None) /\
  tree_visit cb_continue f LEVEL <> visit cb_continue (sysroot f) LEVEL true /\
  tree_visit skip2 f PRE = ([2; 3; 6; 7], VReturn None) /\
  tree_visit stop3 f POST = ([4; 5; 2; 7], VReturn None) /\
  tree_visit (fun calls _ => if Nat.eqb (length calls) 1 then RaiseStopInst (Some 8%Z) else RetNone) f PRE
    = ([2; 4], VReturn (Some 8%Z)) /\
  tree_visit cb_continue f ZIGZAG = ([], VRaise E_NOTIMPL).
Proof. exact tree_visit_example. Qed.
