(* C09 — Searches return exactly the matching nodes, in order, within the
   limit; index access resolves node_id, then data_id, then data.
   Statements only; proofs are in theories/Forest/SearchProofs.v.

   [branch f s add_self] is the searched branch in the structural pre-order of
   Rose.v: the whole forest for a search on the tree ([SRoot]), the sub-tree
   [pre t] or its proper descendants [pre_f (rch t)] for a search from node t.
   [iterator f s] is the model of Node.iterator (mirrors Node._iter_pre).
   A limit k = 0 stands for max_results None / 0 (no limit). *)
From Coq Require Import List ZArith Bool Arith Permutation.
From NT Require Import Sx Rose Search SearchProofs SearchOrder CaseC09.
Import ListNotations.

(* ---- pattern and predicate searches ------------------------------------ *)

(* find_all with any kind of match argument: the first k (all, for k = 0) of
   the nodes of the searched branch that match, in pre-order *)
Theorem C09_find_all_is_filter : forall (f : forest) (s : start) (ms : matchspec) (add_self : bool) (k : nat),
  node_find_all (iterator f s) None (Some ms) None add_self k
  = Ok (py_limit k (filter (cb_match ms) (branch f s add_self))).
Proof. exact node_find_all_match. Qed.
Print Assumptions C09_find_all_is_filter.

(* a regular expression: m is the compiled pattern's fullmatch as a predicate of the name *)
Theorem C09_find_all_regex : forall (m : text -> bool) (f : forest) (s : start) (add_self : bool) (k : nat),
  node_find_all (iterator f s) None (Some (MsRe m)) None add_self k
  = Ok (py_limit k (filter (fun n => m (i_name (rinfo n))) (branch f s add_self))).
Proof. exact node_find_all_regex. Qed.
Print Assumptions C09_find_all_regex.

(* a callback *)
Theorem C09_find_all_callback : forall (p : rt -> bool) (f : forest) (s : start) (add_self : bool) (k : nat),
  node_find_all (iterator f s) None (Some (MsPred p)) None add_self k
  = Ok (py_limit k (filter p (branch f s add_self))).
Proof. exact node_find_all_pred. Qed.
Print Assumptions C09_find_all_callback.

(* find_first: the first match among the proper descendants, or None *)
Theorem C09_find_first : forall (f : forest) (s : start) (ms : matchspec),
  node_find_first (iterator f s) None (Some ms) None
  = Ok (hd_error (filter (cb_match ms) (branch f s false))).
Proof. exact node_find_first_match. Qed.
Print Assumptions C09_find_first.

(* the same statement without reference to filter/firstn: every returned node
   is a matching node of the branch; without a limit every matching node is
   returned; the answer is a subsequence of the pre-order; the matches that
   are missing come after all returned ones; with a limit k >= 1 the answer is
   the first k matches, at most k and exactly min k (number of matches) *)
Theorem C09_find_all_exact_ordered_limited :
  forall (f : forest) (s : start) (ms : matchspec) (add_self : bool) (k : nat) (r : list rt),
  node_find_all (iterator f s) None (Some ms) None add_self k = Ok r ->
  let all := branch f s add_self in
  let p := cb_match ms in
  (forall x, In x r -> In x all /\ p x = true) /\
  (k = 0 -> forall x, In x all -> p x = true -> In x r) /\
  subseq r all /\
  (exists rest, filter p all = r ++ rest) /\
  (1 <= k -> r = firstn k (filter p all) /\ length r <= k /\ length r = Nat.min k (length (filter p all))).
Proof. exact node_find_all_match_props. Qed.
Print Assumptions C09_find_all_exact_ordered_limited.

(* ---- "in pre-order", independently of the recursion ------------------------ *)
(* [before l x y]: x occurs strictly before y in l.  [desc_of x y]: y is a proper
   descendant of x.  [left_of f x y]: somewhere in the forest two siblings a
   (earlier) and b (later) have x in a's branch and y in b's branch.
   The pre-order list of a forest with unique node identities orders two
   different nodes exactly by: ancestors first, then left to right. *)
Theorem C09_preorder_is_document_order : forall (f : forest) (x y : rt),
  NoDup (ids f) -> In x (pre_f f) -> In y (pre_f f) -> x <> y ->
  (before (pre_f f) x y <-> desc_of x y \/ left_of f x y).
Proof. exact pre_f_is_document_order. Qed.
Print Assumptions C09_preorder_is_document_order.

(* ... and so does every search answer, from every start node of the forest,
   with or without self, for every limit *)
Theorem C09_find_all_in_document_order :
  forall (f : forest) (s : start) (ms : matchspec) (add_self : bool) (k : nat) (r : list rt),
  NoDup (ids f) -> start_in f s ->
  node_find_all (iterator f s) None (Some ms) None add_self k = Ok r ->
  forall x y, In x r -> In y r -> x <> y -> (before r x y <-> desc_of x y \/ left_of f x y).
Proof. exact find_all_document_order. Qed.
Print Assumptions C09_find_all_in_document_order.

Theorem C09_find_all_by_id_in_document_order :
  forall (f : forest) (s : start) (data data_id : option did) (d : did) (add_self : bool) (k : nat) (r : list rt),
  NoDup (ids f) -> start_in f s -> merge_data data data_id = Ok (Some d) ->
  node_find_all (iterator f s) data None data_id add_self k = Ok r ->
  forall x y, In x r -> In y r -> x <> y -> (before r x y <-> desc_of x y \/ left_of f x y).
Proof. exact find_all_by_id_document_order. Qed.
Print Assumptions C09_find_all_by_id_in_document_order.

(* no node is returned twice *)
Theorem C09_find_all_no_duplicates :
  forall (f : forest) (s : start) (ms : matchspec) (add_self : bool) (k : nat) (r : list rt),
  NoDup (ids f) -> start_in f s ->
  node_find_all (iterator f s) None (Some ms) None add_self k = Ok r -> NoDup (map rid r).
Proof. exact find_all_NoDup. Qed.
Print Assumptions C09_find_all_no_duplicates.

(* the two structural relations are inhabited and distinguish the two orders of a pair *)
Example C09_document_order_nonvacuous :
  let i (o : Z) := I o o o true [o] (DInt o) None [] in
  let c := T 3 (i 3%Z) [] in
  let a := T 2 (i 2%Z) [c] in
  let b := T 4 (i 4%Z) [] in
  let f := [T 1 (i 1%Z) [a; b]] in
  NoDup (ids f) /\ desc_of a c /\ left_of f c b /\ before (pre_f f) c b /\ ~ before (pre_f f) b c.
Proof.
  cbv zeta. split; [vm_compute; repeat constructor; cbn; intuition discriminate|].
  split; [left; reflexivity|].
  assert (L : left_of [T 1 (I 1 1 1 true [1%Z] (DInt 1) None []) [T 2 (I 2 2 2 true [2%Z] (DInt 2) None []) [T 3 (I 3 3 3 true [3%Z] (DInt 3) None []) []]; T 4 (I 4 4 4 true [4%Z] (DInt 4) None []) []]]
                      (T 3 (I 3 3 3 true [3%Z] (DInt 3) None []) []) (T 4 (I 4 4 4 true [4%Z] (DInt 4) None []) [])).
  { eapply left_deep; [left; reflexivity|]. cbn [rch].
    apply (left_here [] _ [] _ []); [right; left; reflexivity|left; reflexivity]. }
  split; [exact L|].
  pose proof (left_before _ _ _ L) as B. split; [exact B|].
  intros B'. refine (before_asym _ _ _ _ B B'). apply NoDup_pre_f. vm_compute. repeat constructor; cbn; intuition discriminate.
Qed.

(* searches on the tree object *)
Theorem C09_tree_find_all_match : forall (st : tstate) (ms : matchspec) (k : nat),
  tree_find_all st None (Some ms) None k
  = Ok (map rid (py_limit k (filter (cb_match ms) (pre_f (t_forest st))))).
Proof. exact tree_find_all_match. Qed.
Print Assumptions C09_tree_find_all_match.

Theorem C09_tree_find_first_match : forall (st : tstate) (ms : matchspec),
  tree_find_first st None (Some ms) None None
  = Ok (option_map rid (hd_error (filter (cb_match ms) (pre_f (t_forest st))))).
Proof. exact tree_find_first_match. Qed.
Print Assumptions C09_tree_find_first_match.

(* ---- lookups by data / data_id ------------------------------------------ *)

(* from a node (ordered path): the first k nodes of the branch carrying the id *)
Theorem C09_node_find_all_by_id :
  forall (f : forest) (s : start) (data data_id : option did) (d : did) (add_self : bool) (k : nat),
  merge_data data data_id = Ok (Some d) ->
  node_find_all (iterator f s) data None data_id add_self k
  = Ok (py_limit k (filter (did_is d) (branch f s add_self))).
Proof. exact node_find_all_did. Qed.
Print Assumptions C09_node_find_all_by_id.

Theorem C09_node_find_all_by_id_limited :
  forall (f : forest) (s : start) (data data_id : option did) (d : did) (add_self : bool) (k : nat) (r : list rt),
  merge_data data data_id = Ok (Some d) ->
  node_find_all (iterator f s) data None data_id add_self k = Ok r ->
  ordered_answer (did_is d) k (branch f s add_self) r.
Proof. exact node_find_all_did_props. Qed.
Print Assumptions C09_node_find_all_by_id_limited.

Theorem C09_node_find_first_by_id :
  forall (f : forest) (s : start) (data data_id : option did) (d : did),
  merge_data data data_id = Ok (Some d) ->
  node_find_first (iterator f s) data None data_id
  = Ok (hd_error (filter (did_is d) (branch f s false))).
Proof. exact node_find_first_did. Qed.
Print Assumptions C09_node_find_first_by_id.

(* which id is looked up: data (through calc_data_id) or data_id, never both *)
Theorem C09_merge_data : forall data data_id : option did,
  merge_data data data_id =
    match data, data_id with
    | Some _, Some _ => Err EAssert
    | Some c, None => Ok (Some c)
    | None, d => Ok d
    end.
Proof. exact merge_data_cases. Qed.
Print Assumptions C09_merge_data.

(* on the tree (index path): whenever registry and clone index are well formed
   — each index group is a duplicate-free list of exactly the nodes of the
   forest carrying that data_id — the answer has no duplicates, consists of
   nodes of the forest carrying the id, is a permutation of all of them without
   a limit, and has exactly min k (number of them) elements with a limit *)
Theorem C09_tree_find_all_index :
  forall (st : tstate) (data data_id : option did) (d : did) (k : nat),
  state_wf st -> merge_data data data_id = Ok (Some d) ->
  exists r, tree_find_all st data None data_id k = Ok r /\
    NoDup r /\ incl r (all_by_did (t_forest st) d) /\
    (k = 0 -> Permutation r (all_by_did (t_forest st) d)) /\
    (1 <= k -> length r = Nat.min k (length (all_by_did (t_forest st) d))).
Proof. exact tree_find_all_index. Qed.
Print Assumptions C09_tree_find_all_index.

Theorem C09_tree_find_first_index :
  forall (st : tstate) (data data_id : option did) (d : did),
  state_wf st -> merge_data data data_id = Ok (Some d) ->
  exists o, tree_find_first st data None data_id None = Ok o /\
    (o = None <-> all_by_did (t_forest st) d = []) /\
    (forall n, o = Some n -> In n (all_by_did (t_forest st) d)).
Proof. exact tree_find_first_index. Qed.
Print Assumptions C09_tree_find_first_index.

Theorem C09_tree_find_first_node_id : forall (st : tstate) (z : Z),
  tree_find_first st None None None (Some z) = Ok (reg_get z (t_reg st)).
Proof. exact tree_find_first_node_id. Qed.
Print Assumptions C09_tree_find_first_node_id.

(* lookups by a data object o under default ids (no explicit data_id in the
   tree, data_id = hash(data)) and a hash that separates the equality classes
   present in the tree: the answer consists of the nodes whose data equals o *)
Theorem C09_find_all_by_data_is_equality :
  forall (f : forest) (s : start) (o_hash o_eqc : Z) (add_self : bool) (k : nat),
  default_ids f -> hash_separates f o_hash o_eqc -> start_in f s ->
  node_find_all (iterator f s) (Some (DInt o_hash)) None None add_self k
  = Ok (py_limit k (filter (data_equals o_eqc) (branch f s add_self))).
Proof. exact node_find_all_by_data_equality. Qed.
Print Assumptions C09_find_all_by_data_is_equality.

Theorem C09_tree_find_all_by_data_is_equality :
  forall (st : tstate) (o_hash o_eqc : Z) (k : nat),
  state_wf st -> default_ids (t_forest st) -> hash_separates (t_forest st) o_hash o_eqc ->
  exists r, tree_find_all st (Some (DInt o_hash)) None None k = Ok r /\
    NoDup r /\ incl r (map rid (filter (data_equals o_eqc) (pre_f (t_forest st)))) /\
    (k = 0 -> Permutation r (map rid (filter (data_equals o_eqc) (pre_f (t_forest st))))) /\
    (1 <= k -> length r = Nat.min k (length (filter (data_equals o_eqc) (pre_f (t_forest st))))).
Proof. exact tree_find_all_by_data_equality. Qed.
Print Assumptions C09_tree_find_all_by_data_is_equality.

Example C09_data_equality_nonvacuous :
  let i (o : Z) := I o o o true [o] (DInt o) None [] in
  let f := [T 1 (i 5%Z) [T 2 (i 6%Z) []]; T 3 (i 5%Z) []] in
  default_ids f /\ hash_separates f 5%Z 5%Z /\
  res_map (map rid) (node_find_all (iterator f SRoot) (Some (DInt 5)) None None false 0) = Ok [1; 3].
Proof.
  cbv zeta. split; [|split].
  - intros t Ht. cbn in Ht. repeat (destruct Ht as [<-|Ht]; [reflexivity|]). destruct Ht.
  - intros t Ht. cbn in Ht. repeat (destruct Ht as [<-|Ht]; [cbn; split; intros E; (reflexivity || discriminate E)|]). destruct Ht.
  - vm_compute. reflexivity.
Qed.

(* the well-formedness hypothesis is decidable; the correspondence evaluates
   [state_wf_b] on the registry and index observed from the implementation *)
Theorem C09_state_wf_decided : forall st : tstate, state_wf_b st = true -> state_wf st.
Proof. exact state_wf_b_sound. Qed.
Print Assumptions C09_state_wf_decided.

(* ... and the case runner reports it as the first component of every
   observation: an observation that starts with 1 (what the harness expects)
   certifies the hypothesis for that case's state *)
Theorem C09_case_reports_wf : forall (c : case) (rest : list sx),
  run09 c = L (A 1%Z :: rest) -> state_wf (c_state c).
Proof.
  intros c rest E. apply state_wf_b_sound. unfold run09 in E.
  destruct (state_wf_b (c_state c)); [reflexivity|discriminate E].
Qed.
Print Assumptions C09_case_reports_wf.

(* ---- index access -------------------------------------------------------- *)

(* the answer for a list of candidate nodes: KeyError for none, the node for
   exactly one, AmbiguousMatchError for several *)
Theorem C09_classify : forall l : list nat,
  (classify l = Err EKey <-> l = []) /\
  (forall n, classify l = Ok n <-> l = [n]) /\
  (classify l = Err EAmbiguous <-> 2 <= length l).
Proof.
  intros l. exact (conj (classify_key l) (conj (fun n => classify_ok l n) (classify_ambiguous l))).
Qed.
Print Assumptions C09_classify.

(* a Node as key: ValueError; None: NotImplementedError *)
Theorem C09_getitem_node_key : forall (st : tstate) (c : option did), getitem st (KNode c) = Err EValue.
Proof. exact getitem_node. Qed.
Print Assumptions C09_getitem_node_key.

Theorem C09_getitem_none_key : forall st : tstate, getitem st KNone = Err ENotImpl.
Proof. intros st. exact (proj2 (getitem_none st)). Qed.
Print Assumptions C09_getitem_none_key.

(* 1st: an int key that is a registered node_id names that node, whatever
   data_ids or data exist *)
Theorem C09_getitem_node_id_first : forall (st : tstate) (z : Z) (c : did) (n : nat),
  reg_get z (t_reg st) = Some n -> getitem st (KInt z c) = Ok n.
Proof. exact getitem_node_id. Qed.
Print Assumptions C09_getitem_node_id_first.

(* 2nd: otherwise an int/str key that is the data_id of at least one node of
   the forest is answered from the nodes carrying that data_id *)
Theorem C09_getitem_data_id_second : forall (st : tstate) (k : key) (d : did),
  state_wf st -> (forall c, k <> KNode c) -> node_id_stage st k = None ->
  key_as_did k = Some d -> all_by_did (t_forest st) d <> [] ->
  getitem st k = classify (all_by_did (t_forest st) d).
Proof. exact getitem_data_id. Qed.
Print Assumptions C09_getitem_data_id_second.

(* 3rd: otherwise the key is a data object, answered from the nodes carrying calc_data_id(key) *)
Theorem C09_getitem_data_third : forall (st : tstate) (k : key) (c : did),
  state_wf st -> (forall c', k <> KNode c') -> node_id_stage st k = None ->
  (forall d, key_as_did k = Some d -> all_by_did (t_forest st) d = []) ->
  key_calc k = Some c ->
  getitem st k = classify (all_by_did (t_forest st) c).
Proof. exact getitem_data. Qed.
Print Assumptions C09_getitem_data_third.

(* all stages at once: tree[key] is a function of the forest and the registry
   alone — the clone index does not appear on the right-hand side *)
Theorem C09_getitem_resolution : forall (st : tstate) (k : key),
  state_wf st ->
  getitem st k =
    match k with
    | KNode _ => Err EValue
    | KNone => Err ENotImpl
    | _ =>
        match (match key_as_node_id k with Some z => reg_get z (t_reg st) | None => None end) with
        | Some n => Ok n
        | None =>
            let by_data := match key_calc k with
                           | Some c => classify (all_by_did (t_forest st) c)
                           | None => Err ENotImpl
                           end in
            match key_as_did k with
            | Some d => match all_by_did (t_forest st) d with [] => by_data | l => classify l end
            | None => by_data
            end
        end
    end.
Proof. exact getitem_is_spec. Qed.
Print Assumptions C09_getitem_resolution.

(* the node that is returned is a node of the tree *)
Theorem C09_getitem_in_tree : forall (st : tstate) (k : key) (n : nat),
  state_wf st -> getitem st k = Ok n -> In n (ids (t_forest st)).
Proof. exact getitem_in_tree. Qed.
Print Assumptions C09_getitem_in_tree.

(* key in tree *)
Theorem C09_contains : forall (st : tstate) (k : key) (c : did),
  state_wf st -> key_calc k = Some c ->
  contains st k = Ok (match all_by_did (t_forest st) c with [] => false | _ => true end).
Proof. exact contains_spec. Qed.
Print Assumptions C09_contains.

(* del tree[key]: fails exactly as tree[key]; otherwise the identities that
   leave the tree are those of the branch of the node tree[key] names *)
Theorem C09_delitem_reads_getitem : forall (st : tstate) (k : key),
  state_wf st ->
  (forall e, getitem st k = Err e -> delitem st k = Err e) /\
  (forall n, getitem st k = Ok n ->
     exists t, In t (pre_f (t_forest st)) /\ rid t = n /\ delitem st k = Ok (ids_t t)).
Proof. exact delitem_spec. Qed.
Print Assumptions C09_delitem_reads_getitem.

(* ---- clone queries (read the same index) ------------------------------------ *)
Theorem C09_is_clone : forall (st : tstate) (n : rt),
  state_wf st -> In n (pre_f (t_forest st)) ->
  node_is_clone st n = Ok (Nat.ltb 1 (length (all_by_did (t_forest st) (rdid n)))).
Proof. exact node_is_clone_spec. Qed.
Print Assumptions C09_is_clone.

Theorem C09_get_clones : forall (st : tstate) (n : rt) (add_self : bool),
  state_wf st -> In n (pre_f (t_forest st)) ->
  exists r, node_get_clones st n add_self = Ok r /\
    Permutation r (if add_self then all_by_did (t_forest st) (rdid n)
                   else filter (fun x => negb (Nat.eqb x (rid n))) (all_by_did (t_forest st) (rdid n))) /\
    NoDup r /\ (add_self = false -> ~ In (rid n) r) /\ (add_self = true -> In (rid n) r).
Proof. exact node_get_clones_spec. Qed.
Print Assumptions C09_get_clones.

(* ---- non-vacuity ---------------------------------------------------------- *)
(* a forest with a clone group whose index order is NOT the pre-order (node 4
   was inserted before node 2), explicit ids colliding across the three
   resolution stages; the hypotheses hold and the answers discriminate *)
Example C09_nonvacuous :
  let i (o : Z) (nm : text) (d : did) := I o o o true nm d None [] in
  let a := [97%Z] in let b := [98%Z] in
  let f := [T 1 (i 0%Z a (DInt 10)) [T 2 (i 1%Z b (DInt 20)) []; T 3 (i 2%Z a (DStr b)) []];
            T 4 (i 1%Z b (DInt 20)) [T 5 (i 3%Z (a ++ b) (DInt 5)) []]] in
  let st := TS f [(5%Z, 1); (77%Z, 4)] [(DInt 10, [1]); (DInt 20, [4; 2]); (DStr b, [3]); (DInt 5, [5])] in
  let is_a := MsRe (fun s => text_eqb s a) in
  state_wf st /\
  (* pattern search from node 1, with and without self, limited *)
  res_map (map rid) (node_find_all (iterator f (SNode (T 1 (i 0%Z a (DInt 10)) [T 2 (i 1%Z b (DInt 20)) []; T 3 (i 2%Z a (DStr b)) []]))) None (Some is_a) None true 0) = Ok [1; 3] /\
  tree_find_all st None (Some is_a) None 1 = Ok [1] /\
  (* index path: insertion order, limited to one *)
  tree_find_all st None None (Some (DInt 20)) 0 = Ok [4; 2] /\
  tree_find_all st None None (Some (DInt 20)) 1 = Ok [4] /\
  (* resolution order: 5 is a node_id (node 1), a data_id (node 5) *)
  getitem st (KInt 5 (DInt 5)) = Ok 1 /\
  getitem st (KInt 20 (DInt 20)) = Err EAmbiguous /\
  getitem st (KStr b (DInt 20)) = Ok 3 /\
  getitem st (KStr a (DInt 10)) = Ok 1 /\
  getitem st (KObj (DInt 99)) = Err EKey /\
  contains st (KStr b (DInt 20)) = Ok true /\
  delitem st (KInt 77 (DInt 77)) = Ok [4; 5] /\
  node_is_clone st (T 2 (i 1%Z b (DInt 20)) []) = Ok true /\
  node_get_clones st (T 2 (i 1%Z b (DInt 20)) []) false = Ok [4].
Proof.
  cbv zeta. split.
  - apply state_wf_b_sound. vm_compute. reflexivity.
  - vm_compute. repeat split.
Qed.

(* ====================================================================================== *)
(* Glue C09 <-> C02 (theories/Glue/GlueLookup.v).  The index path of the public lookups is modelled
   twice: here (Forest/Search.v, a forest with explicit registry / index, invariant [state_wf]) and in
   the mutation machine (Mut/Lookup.v, the [lk_*] functions of C02 on a machine state, invariant [WF],
   which every history preserves - C01).  [to_search t] is the search state a machine state induces
   (same forest, same index, registry keyed by the node's identity as an int).  It satisfies [state_wf]
   whenever [WF t], and on it the two models give the same answers. *)
From NT Require Machine WF Lookup GlueLookup.

Theorem C09_agrees_with_lookup_model_state : forall t, WF.WF t -> state_wf (GlueLookup.to_search t).
Proof. exact GlueLookup.to_search_wf. Qed.
Print Assumptions C09_agrees_with_lookup_model_state.

Theorem C09_agrees_with_lookup_model_find_all : forall t d k,
  tree_find_all (GlueLookup.to_search t) None None (Some d) k = Ok (Lookup.lk_find_all_did_max t d k).
Proof. exact GlueLookup.find_all_did_agrees. Qed.
Print Assumptions C09_agrees_with_lookup_model_find_all.

Theorem C09_agrees_with_lookup_model_find_all_data : forall t dat c k, Machine.calc_id (Machine.calc t) dat = Some c ->
  tree_find_all (GlueLookup.to_search t) (Some c) None None k = Ok (Lookup.lk_find_all_did_max t c k) /\
  Lookup.lk_find_all_data t dat = Some (Lookup.lk_find_all_did_max t c 0).
Proof. exact GlueLookup.find_all_data_agrees. Qed.
Print Assumptions C09_agrees_with_lookup_model_find_all_data.

Theorem C09_agrees_with_lookup_model_find_first : forall t d,
  tree_find_first (GlueLookup.to_search t) None None (Some d) None = Ok (Lookup.lk_find_first_did t d).
Proof. exact GlueLookup.find_first_did_agrees. Qed.
Print Assumptions C09_agrees_with_lookup_model_find_first.

Theorem C09_agrees_with_lookup_model_find_first_data : forall t dat c, Machine.calc_id (Machine.calc t) dat = Some c ->
  tree_find_first (GlueLookup.to_search t) (Some c) None None None = Ok (Lookup.lk_find_first_did t c) /\
  Lookup.lk_find_first_data t dat = Some (Lookup.lk_find_first_did t c).
Proof. exact GlueLookup.find_first_data_agrees. Qed.
Print Assumptions C09_agrees_with_lookup_model_find_first_data.

Theorem C09_agrees_with_lookup_model_find_first_node_id : forall t n,
  tree_find_first (GlueLookup.to_search t) None None None (Some (Z.of_nat n)) = Ok (Lookup.lk_find_nodeid t n).
Proof. exact GlueLookup.find_first_node_id_agrees. Qed.
Print Assumptions C09_agrees_with_lookup_model_find_first_node_id.

Theorem C09_agrees_with_lookup_model_contains : forall t k c, key_calc k = Some c ->
  exists b, contains (GlueLookup.to_search t) k = Ok b /\ Lookup.lk_contains_key t (Some c) = Some b.
Proof. exact GlueLookup.contains_agrees. Qed.
Print Assumptions C09_agrees_with_lookup_model_contains.

(* __getitem__, key by key ([conv_res]: Ok [n] -> Ok n, same error classes) *)
Theorem C09_agrees_with_lookup_model_getitem_node_id : forall t n c,
  Machine.idx_has (DInt (Z.of_nat n)) (Machine.idx t) = false ->
  getitem (GlueLookup.to_search t) (KInt (Z.of_nat n) c) = GlueLookup.conv_res (Lookup.lk_getitem t (Lookup.LNid n (Some c))).
Proof. exact GlueLookup.getitem_node_id_agrees. Qed.
Print Assumptions C09_agrees_with_lookup_model_getitem_node_id.

Theorem C09_agrees_with_lookup_model_getitem_int : forall t z c, (forall n, In n (Machine.reg t) -> Z.of_nat n <> z) ->
  getitem (GlueLookup.to_search t) (KInt z c) = GlueLookup.conv_res (Lookup.lk_getitem t (Lookup.LDid (DInt z) (Some c))).
Proof. exact GlueLookup.getitem_int_agrees. Qed.
Print Assumptions C09_agrees_with_lookup_model_getitem_int.

Theorem C09_agrees_with_lookup_model_getitem_str : forall t s c,
  getitem (GlueLookup.to_search t) (KStr s c) = GlueLookup.conv_res (Lookup.lk_getitem t (Lookup.LDid (DStr s) (Some c))).
Proof. exact GlueLookup.getitem_str_agrees. Qed.
Print Assumptions C09_agrees_with_lookup_model_getitem_str.

Theorem C09_agrees_with_lookup_model_getitem_data : forall t dat c, Machine.calc_id (Machine.calc t) dat = Some c ->
  getitem (GlueLookup.to_search t) (KObj c) = GlueLookup.conv_res (Lookup.lk_getitem t (Lookup.LData dat None)).
Proof. exact GlueLookup.getitem_data_agrees. Qed.
Print Assumptions C09_agrees_with_lookup_model_getitem_data.

Theorem C09_agrees_with_lookup_model_get_clones : forall t s add_self, WF.WF t -> In s (pre_f (Machine.forest_of t)) ->
  node_get_clones (GlueLookup.to_search t) s add_self = Ok (Lookup.lk_get_clones t (rid s) add_self).
Proof. exact GlueLookup.get_clones_agrees. Qed.
Print Assumptions C09_agrees_with_lookup_model_get_clones.

Theorem C09_agrees_with_lookup_model_is_clone : forall t s, WF.WF t -> In s (pre_f (Machine.forest_of t)) ->
  node_is_clone (GlueLookup.to_search t) s = Ok (Lookup.lk_is_clone t (rid s)).
Proof. exact GlueLookup.is_clone_agrees. Qed.
Print Assumptions C09_agrees_with_lookup_model_is_clone.

(* ======================================================================== *)
(* "... whose name FULLY matches the pattern" (audit finding C09/1, high).
   The theorems above hold for an arbitrary predicate of the name.  Here the
   pattern is SYNTAX ([regex]: literals, `.`, sets / ranges / negated sets, \d,
   concatenation, `|`, `*`, `+`, `?`; flag IGNORECASE on ASCII letters), its
   meaning is the language [matches ic r] (an inductive relation that does not
   mention the matcher), [fullmatchb] is the Brzozowski-derivative matcher the
   case runner evaluates on the syntax trees the harness sends, and
   [prefix_matchb] is re.match.  Other flags, anchors, counted repetition,
   back-references, look-around and Unicode classes are outside the syntax and
   stay on the truth-table path ([MRe], evaluated by the real `re`). *)
From NT Require Import Regex RegexProofs.

(* fullmatch decides: the WHOLE string is in the language of the pattern *)
Theorem C09_fullmatch_is_whole_string_in_language : forall (ic : bool) (s : text) (r : regex),
  fullmatchb ic r s = true <-> matches ic r s.
Proof. exact fullmatch_iff. Qed.
Print Assumptions C09_fullmatch_is_whole_string_in_language.

(* re.match decides: SOME PREFIX of the string is in the language *)
Theorem C09_match_is_some_prefix_in_language : forall (ic : bool) (s : text) (r : regex),
  prefix_matchb ic r s = true <-> exists p q, s = p ++ q /\ matches ic r p.
Proof. exact prefix_match_iff. Qed.
Print Assumptions C09_match_is_some_prefix_in_language.

(* the two are different predicates: pattern "a" on the name "ab" (and a full
   match is always a prefix match) *)
Theorem C09_fullmatch_is_not_match :
  (forall ic r s, fullmatchb ic r s = true -> prefix_matchb ic r s = true) /\
  prefix_matchb false (RChr 97) [97%Z; 98%Z] = true /\ fullmatchb false (RChr 97) [97%Z; 98%Z] = false /\
  ~ matches false (RChr 97) [97%Z; 98%Z].
Proof.
  refine (conj fullmatch_prefix (conj eq_refl (conj eq_refl _))).
  intros H. apply fullmatch_iff in H. discriminate H.
Qed.
Print Assumptions C09_fullmatch_is_not_match.

(* the isinstance dispatch of Node._search over the forms of `match` *)
Theorem C09_search_dispatch : forall (a : match_arg) (n : rt),
  cb_match (search_dispatch a) n =
    match a with
    | MaStr r => fullmatchb false r (name_of n)        (* str: compiled without flags *)
    | MaSeq r ic => fullmatchb ic r (name_of n)        (* (str, flags) / [str, flags] *)
    | MaCall p => p n                                  (* callable *)
    | MaObj o => Z.eqb (i_obj (rinfo n)) o             (* anything else: identity of the data object *)
    end.
Proof. exact dispatch_cases. Qed.
Print Assumptions C09_search_dispatch.

(* what the case runner evaluates for a pattern sent as syntax: the model's own
   fullmatch on the node name; IGNORECASE only in the (str, flags) forms *)
Theorem C09_case_regex_is_fullmatch : forall (seq ic : bool) (r : regex) (n : rt),
  cb_match (spec_of (MRx seq ic r)) n = fullmatchb (seq && ic) r (name_of n).
Proof. intros [|] ic r n; reflexivity. Qed.
Print Assumptions C09_case_regex_is_fullmatch.

(* a pattern search returns the first k (all for k = 0) nodes of the branch, in
   pre-order, whose name is fully matched *)
Theorem C09_find_all_pattern_is_fullmatch :
  forall (f : forest) (s : start) (a : match_arg) (ic : bool) (r : regex) (add_self : bool) (k : nat),
  pattern_of a = Some (ic, r) ->
  node_find_all (iterator f s) None (Some (search_dispatch a)) None add_self k
  = Ok (py_limit k (filter (fun n => fullmatchb ic r (name_of n)) (branch f s add_self))).
Proof. exact node_find_all_pattern. Qed.
Print Assumptions C09_find_all_pattern_is_fullmatch.

(* the same without any matcher on the right-hand side: every returned node is a
   node of the branch whose WHOLE name is in the language of the pattern; without
   a limit every such node is returned; pre-order; at most k, a prefix of the matches *)
Theorem C09_find_all_pattern_language :
  forall (f : forest) (s : start) (a : match_arg) (ic : bool) (r : regex) (add_self : bool) (k : nat) (res : list rt),
  pattern_of a = Some (ic, r) ->
  node_find_all (iterator f s) None (Some (search_dispatch a)) None add_self k = Ok res ->
  (forall x, In x res -> In x (branch f s add_self) /\ matches ic r (name_of x)) /\
  (k = 0 -> forall x, In x (branch f s add_self) -> matches ic r (name_of x) -> In x res) /\
  subseq res (branch f s add_self) /\
  (1 <= k -> length res <= k /\
             exists rest, filter (fun n => fullmatchb ic r (name_of n)) (branch f s add_self) = res ++ rest).
Proof. exact node_find_all_pattern_language. Qed.
Print Assumptions C09_find_all_pattern_language.

Theorem C09_find_first_pattern_is_fullmatch :
  forall (f : forest) (s : start) (a : match_arg) (ic : bool) (r : regex),
  pattern_of a = Some (ic, r) ->
  node_find_first (iterator f s) None (Some (search_dispatch a)) None
  = Ok (hd_error (filter (fun n => fullmatchb ic r (name_of n)) (branch f s false))).
Proof. exact node_find_first_pattern. Qed.
Print Assumptions C09_find_first_pattern_is_fullmatch.

Theorem C09_tree_find_all_pattern_is_fullmatch :
  forall (st : tstate) (a : match_arg) (ic : bool) (r : regex) (k : nat),
  pattern_of a = Some (ic, r) ->
  tree_find_all st None (Some (search_dispatch a)) None k
  = Ok (map rid (py_limit k (filter (fun n => fullmatchb ic r (name_of n)) (pre_f (t_forest st))))).
Proof. exact tree_find_all_pattern. Qed.
Print Assumptions C09_tree_find_all_pattern_is_fullmatch.

(* errors of `key in tree` (only in SearchProofs so far) *)
Theorem C09_contains_errors : forall st : tstate,
  contains st (KNode None) = Err EType /\ contains st KNone = Err ENotImpl.
Proof. exact contains_errors. Qed.
Print Assumptions C09_contains_errors.

(* non-vacuity and the excluded counter-model: nodes named "a", "ab", "A", "b";
   the pattern "a" finds only "a" (a prefix matcher would also find "ab"),
   ("a", IGNORECASE) finds "a" and "A", "a.*" finds "a" and "ab", "[ab]+" all but
   "A", "b|ab?" ...; and the language relation is inhabited *)
Example C09_regex_nonvacuous :
  let i (o : Z) (nm : text) := I o o o true nm (DInt o) None [] in
  let f := [T 1 (i 1%Z [97%Z]) [T 2 (i 2%Z [97%Z; 98%Z]) []; T 3 (i 3%Z [65%Z]) []]; T 4 (i 4%Z [98%Z]) []] in
  let find a := res_map (map rid) (node_find_all (iterator f SRoot) None (Some (search_dispatch a)) None false 0) in
  find (MaStr (RChr 97)) = Ok [1] /\
  map rid (filter (fun n => prefix_matchb false (RChr 97) (name_of n)) (pre_f f)) = [1; 2] /\
  find (MaSeq (RChr 97) true) = Ok [1; 3] /\
  find (MaStr (RCat (RChr 97) (RStar RAny))) = Ok [1; 2] /\
  find (MaStr (RPlus (RCls false [(97, 97); (98, 98)]%Z))) = Ok [1; 2; 4] /\
  find (MaStr (RAlt (RChr 98) (RCat (RChr 97) (ROpt (RChr 98))))) = Ok [1; 2; 4] /\
  find (MaStr REps) = Ok [] /\
  matches false (RCat (RChr 97) (RStar RAny)) [97%Z; 98%Z].
Proof.
  cbv zeta. repeat (split; [vm_compute; reflexivity|]).
  apply fullmatch_iff. vm_compute. reflexivity.
Qed.
