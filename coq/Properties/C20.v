(* C20 — build_random_tree conforms to its structure definition (stub, being built). *)
From Coq Require Import List ZArith Bool.
From NT Require Import Sx Rose RandomTree.
Import ListNotations.

Theorem C20_stub : forall s : stream, fst (next s) = match s with [] => default_draw | d :: _ => d end.
Proof. intros [|d s]; reflexivity. Qed.
Print Assumptions C20_stub.
