(* C20 — build_random_tree produces a tree that conforms to its structure definition.
   Statements only; the model is theories/Forest/RandomTree.v, the specification
   ([Conf], [attrs_ok], [val_ok], [count_ok], [rnd_may], [dotted]) and the proofs are in
   theories/Forest/RandomTreeProofs.v.

   The global random module is an explicit stream of draws; every theorem below
   quantifies over EVERY stream [s] (of any length: an exhausted stream answers a
   default draw).  Domain hypotheses, all recorded in harness/props/C20.py:
     def_wf   – what the Randomizer constructors assert (min < max, delta_days > 0,
                counts match the sample list and have a positive total);
     rank_ok  – D39: the relation graph, restricted to relations that can create a
                child, is acyclic (a rank function decreases along it).  The code
                itself does not terminate otherwise. *)
From Coq Require Import List ZArith Bool QArith.
From NT Require Import Sx Rose RandomTree RandomTreeProofs CaseC20.  (* CaseC20: keeps the correspondence entry point in the same build *)
Import ListNotations.
Open Scope Z_scope.

(* MAIN: for every well-formed acyclic definition, every stream, every class and
   every fuel above the rank of "__root__", the top-level nodes conform to the
   relations of "__root__" (and, hereditarily – see [Conf] – every branch conforms
   to the relations of its node's type): per relation, in dict order, a group of
   [n] children with [count_ok :count n]; the i-th child of the group has the
   relation's type, its dict is aligned with merge("*", type, relation spec) minus
   the ":"-keys popped by the code, fixed values with {idx} -> i and {hier_idx} ->
   dotted (path ++ [i]), random values allowed by [rnd_may], absent only if the
   randomizer may answer None; children again conform, leaf types have none. *)
Theorem C20_conforms : forall (Df : sdef) (rk : text -> nat) (typed : bool) (fuel : nat) (s : stream),
  def_wf Df -> rank_ok Df rk -> (rk K_root < fuel)%nat -> mem K_root (d_rels Df) = true ->
  Conf Df K_root [] (snd (build_random_tree Df typed fuel s)).
Proof.
  intros Df rk typed fuel s Hwf Hrk Hf Hm.
  exact (make_tree_conf Df Hwf rk Hrk fuel K_root [] s Hf Hm).
Qed.
Print Assumptions C20_conforms.

(* the same at any node type and any index path (prefix string = dotted path) *)
Theorem C20_conforms_at : forall (Df : sdef) (rk : text -> nat), def_wf Df -> rank_ok Df rk ->
  forall fuel ptype path s, (rk ptype < fuel)%nat -> mem ptype (d_rels Df) = true ->
  Conf Df ptype path (fst (make_tree Df fuel ptype (dotted path) s)).
Proof. intros Df rk Hwf. exact (make_tree_conf Df Hwf rk). Qed.
Print Assumptions C20_conforms_at.

(* fuel sufficiency: above the rank the fuel does not matter (tree and rest stream) *)
Theorem C20_fuel_sufficient : forall (Df : sdef) (rk : text -> nat), rank_ok Df rk ->
  forall f1 f2 ptype prefix s, (rk ptype < f1)%nat -> (rk ptype < f2)%nat ->
  make_tree Df f1 ptype prefix s = make_tree Df f2 ptype prefix s.
Proof. exact make_tree_fuel. Qed.
Print Assumptions C20_fuel_sufficient.

(* every randomizer answers inside its declared range, for every stream *)
Theorem C20_random_in_range : forall (r : rnd) (s : stream), rnd_wf r -> rnd_may r (fst (gen r s)).
Proof. exact gen_may. Qed.
Print Assumptions C20_random_in_range.

(* class = requested class, name = requested name; kind = type name in a TypedTree *)
Theorem C20_class_and_kind : forall Df typed fuel s (t : gt),
  fst (fst (build_random_tree Df typed fuel s)) = typed /\
  snd (fst (build_random_tree Df typed fuel s)) = d_name Df /\
  kind_of typed t = (if typed then Some (g_type t) else None).
Proof. intros. repeat split. Qed.
Print Assumptions C20_class_and_kind.
