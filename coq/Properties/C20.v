(* C20 — build_random_tree produces a tree that conforms to its structure definition.
   Statements only; the model is theories/Forest/RandomTree.v, the specification
   ([Conf], [attrs_ok], [val_ok], [count_ok], [rnd_may], [dotted]) and the proofs are in
   theories/Forest/RandomTreeProofs.v.

   The global random module is an explicit stream of draws; every theorem below
   quantifies over EVERY stream [s] (of any length: an exhausted stream answers a
   default draw).  Domain hypotheses, all recorded in harness/props/C20.py:
     def_wf   – what the Randomizer constructors assert (min < max, delta_days > 0,
                counts match the sample list and have a positive total);
     rank_ok  – D39: the relation graph, restricted to relations that can create a
                child, is acyclic (a rank function decreases along it).  The code
                itself does not terminate otherwise. *)
From Coq Require Import List ZArith Bool QArith.
From NT Require Import Sx Rose RandomTree RandomTreeProofs RandomTreeComplete CaseC20.  (* CaseC20: keeps the correspondence entry point in the same build *)
From NTGen Require Import Generated.
Import ListNotations.
Open Scope Z_scope.

(* MAIN: for every well-formed acyclic definition, every stream, every class and
   every fuel above the rank of "__root__", the top-level nodes conform to the
   relations of "__root__" (and, hereditarily – see [Conf] – every branch conforms
   to the relations of its node's type): per relation, in dict order, a group of
   [n] children with [count_ok :count n]; the i-th child of the group has the
   relation's type, its data object ([data_ok]) has the class named by the merged
   ":factory" (DictWrapper by default) and a dict that is – before the merged ":callback"
   is applied – aligned with merge("*", type, relation spec) minus the ":"-keys popped by
   the code, fixed values with {idx} -> i and {hier_idx} ->
   dotted (path ++ [i]), random values allowed by [rnd_may], absent only if the
   randomizer may answer None; children again conform, leaf types have none. *)
Theorem C20_conforms : forall (Df : sdef) (rk : text -> nat) (typed : bool) (fuel : nat) (s : stream),
  def_wf Df -> counts_wf Df -> rank_ok Df rk -> (rk K_root < fuel)%nat -> mem K_root (d_rels Df) = true ->
  Conf Df K_root [] (snd (build_random_tree Df typed fuel s)).
Proof.
  intros Df rk typed fuel s Hwf Hcw Hrk Hf Hm.
  exact (make_tree_conf Df Hwf Hcw rk Hrk fuel K_root [] s Hf Hm).
Qed.
Print Assumptions C20_conforms.

(* EXACTNESS (both directions): with the probabilities in [0,1] (asserted by the
   constructors, [def_wf2]), a forest conforms if and only if SOME stream makes
   build_random_tree produce it – the specification [Conf] is neither weaker nor
   stronger than the code.  (Floats: canonical rationals, as the model produces them.) *)
Theorem C20_exact : forall (Df : sdef) (rk : text -> nat), def_wf2 Df -> counts_wf Df -> rank_ok Df rk ->
  forall fuel ptype path f, (rk ptype < fuel)%nat -> mem ptype (d_rels Df) = true ->
    (Conf Df ptype path f <-> exists s, fst (make_tree Df fuel ptype (dotted path) s) = f).
Proof. exact conf_exact. Qed.
Print Assumptions C20_exact.

(* the same at any node type and any index path (prefix string = dotted path) *)
Theorem C20_conforms_at : forall (Df : sdef) (rk : text -> nat), def_wf Df -> counts_wf Df -> rank_ok Df rk ->
  forall fuel ptype path s, (rk ptype < fuel)%nat -> mem ptype (d_rels Df) = true ->
  Conf Df ptype path (fst (make_tree Df fuel ptype (dotted path) s)).
Proof. intros Df rk Hwf Hcw. exact (make_tree_conf Df Hwf Hcw rk). Qed.
Print Assumptions C20_conforms_at.

(* fuel sufficiency: above the rank the fuel does not matter (tree and rest stream) *)
Theorem C20_fuel_sufficient : forall (Df : sdef) (rk : text -> nat), rank_ok Df rk ->
  forall f1 f2 ptype prefix s, (rk ptype < f1)%nat -> (rk ptype < f2)%nat ->
  make_tree Df f1 ptype prefix s = make_tree Df f2 ptype prefix s.
Proof. exact make_tree_fuel. Qed.
Print Assumptions C20_fuel_sufficient.

(* every randomizer answers inside its declared range, for every stream *)
Theorem C20_random_in_range : forall (r : rnd) (s : stream), rnd_wf r -> rnd_may r (fst (gen r s)).
Proof. exact gen_may. Qed.
Print Assumptions C20_random_in_range.

(* class = requested class, name = requested name; kind = type name in a TypedTree.
   NOTE (audit): these are DEFINITIONAL in the model – [build_random_tree] returns the requested
   class and name as its first components and a generated node has one field for type and kind –
   so the proofs are [reflexivity].  They are statements about exactly the terms the correspondence
   evaluates ([run20] prints [fst (fst (build_random_tree …))], [snd (fst …)] and, for every node,
   [kind_of typed t]); that the implementation really passes kind=node_type / uses tree_class is
   carried by the correspondence (class, name and every node's kind are observed) and by the
   Python oracle (kind of every node = its relation's type; plain Node in a plain Tree), see the
   sensitivity mutation "kind of the parent". *)
Theorem C20_class_and_kind : forall Df typed fuel s (t : gt),
  fst (fst (build_random_tree Df typed fuel s)) = typed /\
  snd (fst (build_random_tree Df typed fuel s)) = d_name Df /\
  kind_of typed t = (if typed then Some (g_type t) else None).
Proof. intros. repeat split. Qed.
Print Assumptions C20_class_and_kind.

(* the class only decides the kind: Tree and TypedTree get the same nodes from the same
   definition and stream *)
Theorem C20_class_independent : forall Df fuel s,
  snd (build_random_tree Df true fuel s) = snd (build_random_tree Df false fuel s).
Proof. reflexivity. Qed.
Print Assumptions C20_class_independent.

(* ------------------------------------------------------------------------ *)
(* EVERY node at any depth: type allowed by the relations of its parent's type,
   dict = merged spec of that relation at the node's own index path, children
   conform again (or none for a leaf type) *)
Theorem C20_every_node : forall (Df : sdef) ptype path f q u,
  Conf Df ptype path f -> NodeAt ptype f q u ->
  exists path' cs e i,
    lookup q (d_rels Df) = Some cs /\ In e cs /\ (1 <= i)%nat /\
    g_type u = fst e /\
    data_ok (mspec Df e) i (path' ++ [i]) u /\
    (mem (fst e) (d_rels Df) = true -> Conf Df (fst e) (path' ++ [i]) (g_ch u)) /\
    (mem (fst e) (d_rels Df) = false -> g_ch u = []).
Proof.
  intros Df ptype path f q u HC HN.
  destruct (every_node Df ptype path f q u HC HN) as [path' [cs [e [i H]]]].
  exists path', cs, e, i. exact H.
Qed.
Print Assumptions C20_every_node.

(* per relation (the relation dict has distinct keys): the children of type ct are
   exactly that relation's group; their number obeys :count; the k-th of them carries
   the macro index k+1 = its 1-based position among the siblings of its type (the
   kind-aware sibling index of C15) and the index path path ++ [k+1] *)
Theorem C20_relation_group : forall (Df : sdef) ptype path f cs e,
  Conf Df ptype path f -> lookup ptype (d_rels Df) = Some cs -> NoDup (map fst cs) -> In e cs ->
  let g := filter (of_type (fst e)) f in
  count_ok (lookup K_count (mspec Df e)) (length g) /\
  forall k t, nth_error g k = Some t ->
    g_type t = fst e /\
    data_ok (mspec Df e) (S k) (path ++ [S k]) t /\
    (mem (fst e) (d_rels Df) = true -> Conf Df (fst e) (path ++ [S k]) (g_ch t)) /\
    (mem (fst e) (d_rels Df) = false -> g_ch t = []).
Proof. exact relation_group. Qed.
Print Assumptions C20_relation_group.

(* child count: fixed, default 1, RangeRandomizer with probability 1.0 / any probability *)
Theorem C20_child_count :
  (forall n, count_ok None n <-> n = 1%nat) /\
  (forall v n, count_ok (Some (SV v)) n <-> n = count_of v) /\
  (forall lo hi p none n, (p == 1)%Q -> 0 <= lo ->
     count_ok (Some (SR (RRangeI lo hi p none))) n -> lo <= Z.of_nat n < hi) /\
  (forall lo hi p none n, 0 <= lo ->
     count_ok (Some (SR (RRangeI lo hi p none))) n -> lo <= Z.of_nat n < hi \/ n = count_of none).
Proof.
  refine (conj _ (conj _ (conj count_ok_range count_ok_range_any))); intros; cbn [count_ok]; tauto.
Qed.
Print Assumptions C20_child_count.

(* the data object of a node: class from ":factory"; the dict is the aligned dict a0
   after the callback (none: a0 itself; set k z: a0 with k := z; del k: a0 without k) *)
Theorem C20_data_object : forall m i path t, data_ok m i path t ->
  g_fac t = fac_of (lookup K_factory m) /\
  exists a0, attrs_ok i path (strip m) a0 /\
    (cb_of (lookup K_callback m) = CbNone -> g_attrs t = a0) /\
    forall k, lookup k (g_attrs t) =
      match cb_of (lookup K_callback m) with
      | CbNone => lookup k a0
      | CbSet k' z => if text_eqb k k' then Some (VInt z) else lookup k a0
      | CbDel k' => if text_eqb k' k then None else lookup k a0
      end.
Proof.
  intros m i path t [Hf [a0 [Ha Hg]]]. split; [exact Hf|]. exists a0. split; [exact Ha|]. split.
  - intros E. rewrite Hg, E. reflexivity.
  - intros k. rewrite Hg. apply lookup_apply_cb.
Qed.
Print Assumptions C20_data_object.

(* attributes, key by key (the merged spec is a dict: distinct keys) *)
Theorem C20_attributes : forall i path m a, attrs_ok i path m a -> NoDup (map fst m) -> forall k,
  match lookup k m with
  | None => lookup k a = None
  | Some (SV v0) => lookup k a = Some (expand i (dotted path) v0)
  | Some (SR r) =>
      match lookup k a with
      | Some v => exists raw, rnd_may r raw /\ raw <> VNone /\ v = expand i (dotted path) raw
      | None => rnd_may r VNone
      end
  end.
Proof. exact attrs_ok_lookup. Qed.
Print Assumptions C20_attributes.

(* the merged spec: relation spec over type defaults over "*" defaults; ":count",
   ":callback", ":factory" never reach the node; distinct keys are preserved *)
Theorem C20_merge : forall k nt sp types,
  lookup k (merge_specs nt sp types) =
    match lookup k (rev sp) with
    | Some v => Some v
    | None => match lookup k (rev (getd nt types)) with
              | Some v => Some v
              | None => lookup k (getd K_star types)
              end
    end /\
  lookup k (strip (merge_specs nt sp types)) =
    (if special k then None else lookup k (merge_specs nt sp types)) /\
  (NoDup (map fst sp) -> lookup k (rev sp) = lookup k sp) /\
  (NoDup (map fst (getd K_star types)) -> NoDup (map fst (strip (merge_specs nt sp types)))).
Proof.
  intros k nt sp types. refine (conj (merge_lookup k nt sp types) (conj (lookup_strip k _) (conj _ _))).
  - apply lookup_rev_nodup.
  - intros H. apply nodup_keys_strip. apply nodup_keys_merge. exact H.
Qed.
Print Assumptions C20_merge.

(* macros: {idx} -> decimal i, {hier_idx} -> the dotted index path; the prefix string
   threaded by the code is that path; [dec] is decimal notation (decoding law) *)
Theorem C20_macros :
  (forall path i, hier (dotted path) i = dotted (path ++ [i])) /\
  (forall n, undec (dec n) = Z.of_nat n /\ Forall (fun d => 48 <= d <= 57) (dec n) /\ dec n <> []) /\
  (forall t i p, expand i p (VStr t) = VStr [Lit (render t i p)]) /\
  (forall i p, render [Lit [84; 32]; Idx; Lit [47]; HierIdx] i p = [84; 32] ++ dec i ++ [47] ++ p) /\
  (forall w i p, render [IdxPad w] i p = repeat 48 (w - length (dec i))%nat ++ dec i) /\
  render [IdxPad 3] 7 [] = [48; 48; 55].
Proof.
  refine (conj hier_dotted (conj (fun n => conj (dec_undec n) (conj (dec_digits n) (dec_nonempty n))) (conj _ _))).
  - reflexivity.
  - refine (conj _ (conj _ eq_refl)).
    + intros i p. cbn [render flat_map]. rewrite app_nil_r. reflexivity.
    + intros w i p. cbn [render flat_map]. rewrite app_nil_r. reflexivity.
Qed.
Print Assumptions C20_macros.

(* probability, stream-aware: u = random() >= probability (< 1.0) -> the none value and
   exactly one draw consumed; probability 0.0 -> always; probability 1.0 -> never, no draw *)
Theorem C20_probability : forall r s,
  (~ (prob_of r == 1)%Q -> (prob_of r <= rand01 (fst (next s)))%Q -> gen r s = (none_of r, snd (next s))) /\
  ((prob_of r == 0)%Q -> gen r s = (none_of r, snd (next s))) /\
  ((prob_of r == 1)%Q -> skip_value (prob_of r) s = (false, s) /\ (rnd_wf r -> in_range r (fst (gen r s)))) /\
  ((rand01 (fst (next s)) < prob_of r)%Q -> fst (skip_value (prob_of r) s) = false).
Proof.
  intros r s. refine (conj (gen_skipped r s) (conj (gen_prob_zero r s) (conj _ _))).
  - intros H1. split; [exact (skip_value_p1 _ s H1)|]. intros Hwf. exact (rnd_may_p1 r _ H1 (gen_may r s Hwf)).
  - intros H. apply skip_value_used. right. exact H.
Qed.
Print Assumptions C20_probability.

(* an attribute skipped by probability is absent, and the rest of the dict is resolved
   as if the key were not there *)
Theorem C20_skipped_absent : forall k r d i p s,
  ~ (prob_of r == 1)%Q -> (prob_of r <= rand01 (fst (next s)))%Q -> none_of r = VNone ->
  resolve_dict ((k, SR r) :: d) i p s = resolve_dict d i p (snd (next s)) /\
  (~ In k (map fst d) -> lookup k (fst (resolve_dict ((k, SR r) :: d) i p s)) = None).
Proof. exact resolve_dict_skipped. Qed.
Print Assumptions C20_skipped_absent.

(* D39 (recorded domain restriction): for the cyclic definition
   {"__root__": {"a": {}}, "a": {"a": {}}} the tree is as high as the fuel, for every
   fuel and stream (the code recurses without end), and no rank function exists *)
Theorem C20_D39_cyclic_never_stabilises :
  (forall fuel s, list_max (map g_height (fst (make_tree Dcyc fuel K_root [] s))) = fuel) /\
  ~ (exists rk, rank_ok Dcyc rk).
Proof. exact (conj cyclic_unbounded cyclic_no_rank). Qed.
Print Assumptions C20_D39_cyclic_never_stabilises.

(* the asserts of the Randomizer constructors (decided by [ctor_ok], compared with the
   implementation on generated well- and ill-formed constructor arguments) give a
   probability in [0,1] and the well-formedness the range theorems need *)
Theorem C20_constructors : forall r, ctor_ok r = true ->
  (0 <= prob_of r)%Q /\ (prob_of r <= 1)%Q /\ (match r with RSample _ _ _ => True | _ => rnd_wf r end).
Proof. exact ctor_ok_wf. Qed.
Print Assumptions C20_constructors.

(* the statement WITHOUT the acyclicity hypothesis – "for every well-formed definition some
   fuel is enough" (= the code terminates) – is false: D39 *)
Definition C20_terminates_for_every_definition : Prop :=
  forall Df, def_wf Df -> mem K_root (d_rels Df) = true ->
    exists fuel, forall fuel' s, (fuel <= fuel')%nat ->
      make_tree Df fuel' K_root [] s = make_tree Df fuel K_root [] s.
Theorem C20_terminates_for_every_definition_refuted : ~ C20_terminates_for_every_definition.
Proof.
  intros H. destruct (H Dcyc) as [fuel Hf].
  - split; repeat constructor.
  - reflexivity.
  - pose proof (Hf (S fuel) [] (Nat.le_succ_diag_r fuel)) as E.
    pose proof (cyclic_unbounded (S fuel) []) as H1. pose proof (cyclic_unbounded fuel []) as H2.
    rewrite E in H1. rewrite H1 in H2. exact (Nat.neq_succ_diag_l _ H2).
Qed.
Print Assumptions C20_terminates_for_every_definition_refuted.

(* Text-/BlindTextRandomizer: fabulist is an ORACLE.  What the code guarantees, and what is stated:
   the value is absent (skipped) or the answer of fabulist for exactly the declared arguments [arg]
   (TextRandomizer: get_quote(template); BlindTextRandomizer: get_lorem_paragraph(sentence_count,
   dialect, entropy, keep_first, words_per_sentence)) – modelled as the echo of the arguments followed
   by ARBITRARY text; nothing is claimed about the words fabulist chooses.  Without fabulist the two
   constructors raise RuntimeError (case CCtorNoFab of the correspondence). *)
Theorem C20_text_randomizers : forall arg p s,
  fst (gen (RText arg p) s) = VNone \/ exists t, fst (gen (RText arg p) s) = VStr (arg ++ t).
Proof.
  intros arg p s. destruct (gen_may (RText arg p) s Logic.I) as [[_ [t H]]|[_ H]].
  - right. exists t. exact H.
  - left. exact H.
Qed.
Print Assumptions C20_text_randomizers.

(* a :count that is not an int/bool (after [or 0]: not None, 0.0, ""): range(count) raises TypeError
   and nothing is returned.  Such definitions are OUTSIDE the conformance theorems (hypothesis
   [counts_wf], decided per case by [in_domain]); the model reproduces the refusal: the relation's
   group is the error trace and [run20] answers TypeError. *)
Theorem C20_non_int_count_raises : forall Df rec prefix e s,
  count_err (lookup K_count (mspec Df e)) s = true ->
  fst (make_group Df rec prefix e s) = [err_node (fst e)] /\ raised (err_node (fst e)) = true.
Proof. exact count_err_raises. Qed.
Print Assumptions C20_non_int_count_raises.

Example C20_non_int_count_example :
  let d v := SD None [] [(K_root, [([97], [(K_count, SV v)])])] in
  run20 (CBuild false (d (VFlt (mkQ 5 2))) 2 [] []) = L [A (-2); A 7] /\          (* 2.5: TypeError *)
  run20 (CBuild false (d (VStr [Lit [120]])) 2 [] []) = L [A (-2); A 7] /\        (* "x": TypeError *)
  in_domain (d (VFlt (mkQ 5 2))) 2 [] = false /\
  (exists f b1 b2, run20 (CBuild false (d (VFlt (mkQ 0 1))) 2 [(K_root, 1)] []) =  (* 0.0: no children *)
                   L [A 0; L []; L f; A b1; A b2] /\ f = []) /\
  counts_wf (d (VInt 2)) /\ ~ counts_wf (d (VFlt (mkQ 5 2))).
Proof.
  cbv zeta. refine (conj eq_refl (conj eq_refl (conj eq_refl (conj _ (conj _ _))))).
  - eexists _, _, _. vm_compute. split; reflexivity.
  - apply counts_wfb_ok. reflexivity.
  - intros H. specialize (H K_root _ ([97], [(K_count, SV (VFlt (mkQ 5 2)))]) eq_refl (or_introl eq_refl)).
    vm_compute in H. discriminate H.
Qed.

(* the decidable domain checks evaluated by the correspondence on every case imply
   the hypotheses of C20_conforms *)
Theorem C20_domain_checks : forall Df fuel rk, in_domain Df fuel rk = true ->
  let rkf := rk_of (map (fun p => (fst p, Z.to_nat (snd p))) rk) in
  def_wf Df /\ def_wf2 Df /\ counts_wf Df /\ rank_ok Df rkf /\ (rkf K_root < Z.to_nat fuel)%nat /\
  mem K_root (d_rels Df) = true.
Proof.
  intros Df fuel rk H. unfold in_domain in H.
  apply andb_true_iff in H. destruct H as [H H4]. apply andb_true_iff in H. destruct H as [H H3].
  apply andb_true_iff in H. destruct H as [H H2]. apply andb_true_iff in H. destruct H as [H1 H5].
  apply def_wf2b_ok in H1.
  refine (conj (def_wf2_wf _ H1) (conj H1 (conj (counts_wfb_ok _ H5) (conj (rank_okb_ok _ _ H2) (conj _ H4))))).
  apply Nat.ltb_lt. exact H3.
Qed.
Print Assumptions C20_domain_checks.

(* ------------------------------------------------------------------------ *)
(* facts regenerated from the SOURCE TEXT of nutree/tree_generator.py on every run
   (harness/gen_facts.py, ast only): the lexical structure the model mirrors.  A
   change of the popped keys, the default count, the 1-based loop index, the macro
   names, the separator, the order of the three merge sources, the comparison of the
   skip test, or the set of random-module functions the file uses breaks this. *)
Definition txt (l : list Z) : text := l.
Theorem C20_source_facts :
  TG_POPPED = [K_count; K_callback; K_factory] /\
  (forall m, map fst (strip m) = filter (fun k => negb (existsb (fun q => text_eqb q k) TG_POPPED)) (map fst m)) /\
  (forall s, Z.of_nat (fst (resolve_count None s)) = TG_COUNT_DEFAULT) /\
  Z.of_nat (count_of VNone) = TG_COUNT_OR /\
  (forall n, hd 0%nat (seq (Z.to_nat TG_IDX_BASE) (S n)) = 1%nat) /\
  TG_MACROS = [(txt [105; 100; 120], txt [105]); (txt [104; 105; 101; 114; 95; 105; 100; 120], txt [112])] /\
  TG_HIER_SEP = [DOT] /\
  TG_MERGE_ORDER = [K_star; txt [110; 111; 100; 101; 95; 116; 121; 112; 101]; txt [115; 112; 101; 99]] /\
  TG_SKIP_CMP = txt [76; 116] /\
  TG_RANDOM_USES = TG_RANDOM_CALLS /\
  TG_RANDOM_CALLS = [txt [114; 97; 110; 100; 111; 109]; txt [114; 97; 110; 100; 114; 97; 110; 103; 101];
                     txt [115; 97; 109; 112; 108; 101]; txt [117; 110; 105; 102; 111; 114; 109]] /\
  TG_RANGE_ARGS_OK = true /\ TG_DATE_OK = true /\ TG_ROOT = K_root.
Proof.
  refine (conj eq_refl (conj _ (conj (fun _ => eq_refl) (conj eq_refl (conj (fun _ => eq_refl)
          (conj eq_refl (conj eq_refl (conj eq_refl (conj eq_refl (conj eq_refl (conj eq_refl
          (conj eq_refl (conj eq_refl eq_refl))))))))))))).
  intros m. rewrite keys_strip. apply filter_ext. intros k.
  unfold special, K_count, K_callback, K_factory. cbn [existsb TG_POPPED].
  repeat match goal with |- context [text_eqb ?a k] => destruct (text_eqb a k) end; reflexivity.
Qed.
Print Assumptions C20_source_facts.

(* ------------------------------------------------------------------------ *)
(* non-vacuity: the suite's own definition (test_simple) is inside the domain, and
   a stream builds a tree with 3 levels on which the statements speak about
   real nodes *)
Definition t_ (s : list Z) : text := s.
Definition FN := t_ [102;110]. Definition FAIL := t_ [102;97;105;108].
Definition CAUSE := t_ [99;97;117;115;101]. Definition EFF := t_ [101;102;102].
Definition TITLE := t_ [116;105;116;108;101]. Definition ICON := t_ [105;99;111;110].
Definition Dex : sdef :=
  SD (Some [102;109;101;97])
     [ (K_star, [(K_factory, SV (VFac 0))]); (FN, [(ICON, SV (VStr [Lit [103]]))]); (CAUSE, [(ICON, SV (VStr [Lit [116]]))]) ]
     [ (K_root, [(FN, [(K_count, SV (VInt 3)); (TITLE, SV (VStr [Lit [70; 32]; HierIdx]));
                        (t_ [100], SR (RDate 737425 365 true (mkQ 63 64)));
                        (t_ [118], SR (RValue (VStr [Lit [102]]) (mkQ 1 2)));
                        (t_ [115], SR (RSample [VStr [Lit [111]]; VStr [Lit [99]]] None (mkQ 1 1)))])]);
       (FN, [(FAIL, [(K_count, SR (RRangeI 1 3 (mkQ 1 1) VNone)); (TITLE, SV (VStr [Lit [70; 32]; HierIdx]))])]);
       (FAIL, [(CAUSE, [(K_count, SR (RRangeI 1 3 (mkQ 63 64) VNone)); (TITLE, SV (VStr [Lit [67; 32]; HierIdx]))]);
               (EFF, [(K_count, SR (RRangeI 1 3 (mkQ 1 1) VNone)); (TITLE, SV (VStr [Idx; Lit [58]; HierIdx]))])]) ].
Definition rkex := [(K_root, 3); (FN, 2); (FAIL, 1)].
Definition sex : stream :=
  map (fun n => D n 64 []) [7; 3; 100; 1; 0; 5; 9; 1; 2; 3; 1; 0; 1; 11; 1; 1; 0; 1; 70; 2; 65; 4; 8; 1; 1; 1; 0; 3; 2; 1; 1; 1].

Definition title_is (s : text) (t : gt) : bool :=
  match lookup TITLE (g_attrs t) with Some (VStr [Lit x]) => text_eqb x s | _ => false end.

Example C20_nonvacuous :
  (* the hypotheses of C20_conforms hold (C20_domain_checks) *)
  in_domain Dex 4 rkex = true /\
  let f := snd (build_random_tree Dex true 4 sex) in
  length f = 3%nat /\ list_max (map g_height f) = 3%nat /\ list_sum (map g_size f) = 25%nat /\
  (* a node at depth 3: the second "eff" below "fail" 2 below "fn" 2, titled "2:2.2.2"? no –
     fail 2.2 has one effect only; "1:2.2.1" is there, and "2:2.1.2" below fail 2.1 *)
  existsb (fun a => existsb (fun b => existsb (fun c => text_eqb (g_type c) EFF && title_is [50;58;50;46;49;46;50] c)
                                              (g_ch b) && text_eqb (g_type b) FAIL) (g_ch a)) f = true /\
  (* per-relation numbering: "cause" 1.1.2 and "eff" 1.1.2 are siblings *)
  existsb (fun a => existsb (fun b => existsb (title_is [67;32;49;46;49;46;50]) (g_ch b) &&
                                      existsb (title_is [50;58;49;46;49;46;50]) (g_ch b)) (g_ch a)) f = true /\
  (* probability skips really happen on this stream: key "v" is absent from one "fn", present in another *)
  existsb (fun a => match lookup [118] (g_attrs a) with None => true | _ => false end) f = true /\
  existsb (fun a => match lookup [118] (g_attrs a) with Some _ => true | _ => false end) f = true.
Proof. vm_compute. repeat split. Qed.

(* NodeAt reaches nodes below the top level *)
Example C20_nodeat_nonvacuous :
  let c := G EFF 0 [] [] in let b := G FAIL 0 [] [c] in let a := G FN 0 [] [b] in
  NodeAt K_root [a] FAIL c.
Proof.
  cbv zeta. eapply NA_below; [left; reflexivity|]. eapply NA_below; [left; reflexivity|].
  apply NA_here. left. reflexivity.
Qed.

(* the generated facts this property uses were lifted from the current source *)
Theorem C20_generated_facts_present : GEN_TREEGEN_OK = true.
Proof. reflexivity. Qed.
Print Assumptions C20_generated_facts_present.
