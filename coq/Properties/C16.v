From Coq Require Import List ZArith Bool.
From NT Require Import Sx Rose Format CaseC16.
Import ListNotations.
Theorem C16_stub : True. Proof. exact Logic.I. Qed.
Print Assumptions C16_stub.
