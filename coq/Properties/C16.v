(* C16 — Pretty-printing renders the tree shape faithfully in every connector style.
   Statements only; proofs are in theories/Forest/FormatProofs.v (what is
   printed) and theories/Forest/FormatDecode.v (what can be read back).

   Model: theories/Forest/Format.v ([get_prefix] with the loop of
   Node._get_prefix, [render_lines], [format_iter], [tree_format_iter],
   [format]/[tree_format]).  [table], [dflt] (style table, default style
   name) and [rend] (the rendering of a node: repr string or callable) are
   universally quantified; the obligations on the real table are proved for
   the GENERATED value [CONNECTORS] at the end.

   Vocabulary of the statements (all independent of the model's recursion):
     pre_f f               pre-order list of the nodes (Rose.v)
     zip_lines rend p ns   [p_i ++ rend n_i]
     full_prefix g fl last hc = concat (map (seg_anc g) fl) ++ seg_self g last hc
     rel_flags/rdepth      flags/depth of a context relative to the printed branch
     nctx_ok f c           c's flags are "no following sibling" at each step of a
                           path from the top-level list down to c's node
     shape_f, depths_f     bare shape / pre-order depth list of a forest
     shape_of_depths       parser: depth list -> shape
     style_okb g           ancestor segments share one width wa>0, own segments one width ws>0
     decode_depth g p      depth from LENGTH p;  decode_shape g prefixes
     decode_anc/dec_last/dec_hc   flags from the characters of a prefix *)
From Coq Require Import List ZArith Bool Arith.
From NT Require Import Sx Rose Nav NavProofs Format FormatProofs FormatDecode FormatNav CaseC16.
From NT Require MiscPrint MiscPrintProofs.   (* part PRINT, imported at the end of this file *)
From NT Require MiscRepr MiscRender MiscRenderProofs FsReprDecode.
From NTGen Require Import Generated.
Import ListNotations.

(* ================================================================== *)
(* 1. What is printed                                                   *)
(* ================================================================== *)

(* The contexts the printer works with: one per node of the forest, in
   pre-order, and each carries exactly the positional last-sibling flags of
   its ancestors (top-level first) and of itself. *)
Theorem C16_contexts_are_preorder_with_positional_flags : forall f : forest,
  map n_node (ctxs_l [] f) = pre_f f /\ Forall (nctx_ok f) (ctxs_l [] f).
Proof. exact (fun f => conj (ctxs_nodes_l f []) (ctxs_ok f)). Qed.
Print Assumptions C16_contexts_are_preorder_with_positional_flags.

(* ... and these positional flags are what the Python loop

       for p in self.get_parent_list(): ... _is_last(p) ...;  _is_last(self);  bool(self._children)
       _is_last(p) = p is p._parent._children[-1]

   computes with identity tests.  In terms of the functions of the
   relationship-query model (C10) only: when node identities are unique
   (C01), for every printer context c the query model locates the node
   ([locate_f]), and the ancestors' flags are [q_is_last] of the LOCATED
   context of every member of get_parent_list() in that order, the own flag is
   [q_is_last], has-children is [q_has_children], number of flags = depth - 1. *)
Theorem C16_flags_are_the_identity_tests_of_the_code : forall f : forest,
  NoDup (ids f) ->
  Forall (fun c => exists nc,
            locate_f (rid (n_node c)) f = Some nc
            /\ c_self nc = n_node c
            /\ n_anc c = map (is_last_located f) (q_parent_list nc false false)
            /\ n_last c = q_is_last nc
            /\ has_ch (n_node c) = q_has_children nc
            /\ q_depth nc = S (length (n_anc c)))
         (ctxs_l [] f).
Proof. exact ctxs_located. Qed.
Print Assumptions C16_flags_are_the_identity_tests_of_the_code.

(* the same relationally: the context is a structural context ([ctx_ok]) and
   the flags are [q_is_last] along the descent ([npath]) *)
Theorem C16_flags_along_the_descent : forall f : forest,
  NoDup (ids f) -> Forall (nav_agrees f) (ctxs_l [] f).
Proof. exact ctxs_nav_agree. Qed.
Print Assumptions C16_flags_along_the_descent.

(* Node._get_prefix (the Python loop with its [depth]/[lstrip] counters) in
   closed form: nothing for a node above the cut, otherwise the segments of
   the ancestors below the cut followed by the own segment. *)
Theorem C16_prefix_closed_form : forall style g lstrip c,
  unpack style = Some g ->
  get_prefix style lstrip c
  = Some (if lstrip <=? length (n_anc c)
          then full_prefix g (skipn lstrip (n_anc c)) (n_last c) (has_ch (n_node c))
          else []).
Proof. exact get_prefix_spec. Qed.
Print Assumptions C16_prefix_closed_form.

(* Node.format_iter for any node of any forest, add_self on/off, any
   non-list style with 4 or 6 segments: one line per node of the branch in
   pre-order, line = prefix ++ rendering; the prefixes are a function of the
   branch alone (contexts RELATIVE to the start node): the start node has no
   prefix, every other node has [full_prefix] of its relative flags. *)
Theorem C16_node_lines : forall table dflt rend a style g f anc last t add_self,
  is_list_style a = false ->
  resolve_style table dflt a = Ok style -> unpack style = Some g ->
  format_iter table dflt rend f (SNode (anc, last, t)) a add_self
    = Ok (zip_lines rend (node_prefixes g add_self t) (node_branch add_self t))
  /\ length (node_prefixes g add_self t) = length (node_branch add_self t).
Proof. exact node_format_lines. Qed.
Print Assumptions C16_node_lines.

(* Tree.format_iter: title logic (default / False / True / text / empty
   text) and then the same for the whole forest; the top-level nodes carry
   their own connector iff there is a title ([title is not False]). *)
Theorem C16_tree_lines : forall table dflt rend a style g trepr f ti,
  is_list_style a = false ->
  resolve_style table dflt a = Ok style -> unpack style = Some g ->
  tree_format_iter table dflt rend trepr f a ti
    = Ok (title_lines trepr false ti ++
          zip_lines rend (rel_prefixes g (has_title false ti) f) (pre_f f))
  /\ length (rel_prefixes g (has_title false ti) f) = length (pre_f f).
Proof. exact tree_format_lines. Qed.
Print Assumptions C16_tree_lines.

(* Node.format_iter called on the system root (tree.system_root): the system
   root is never a line; its children carry a connector iff add_self; in list
   style the renderings only (this is the repaired D35) *)
Theorem C16_system_root_lines : forall table dflt rend a f add_self,
  (forall style g, is_list_style a = false ->
     resolve_style table dflt a = Ok style -> unpack style = Some g ->
     format_iter table dflt rend f SRoot a add_self
       = Ok (zip_lines rend (rel_prefixes g add_self f) (pre_f f))
     /\ length (rel_prefixes g add_self f) = length (pre_f f)
     /\ (style_okb g = true -> decode_shape g (rel_prefixes g add_self f) = shape_f f))
  /\ (is_list_style a = true -> format_iter table dflt rend f SRoot a add_self = Ok (map rend (pre_f f))).
Proof.
  exact (fun table dflt rend a f add_self => conj
    (fun style g NL R U =>
       match root_format_lines table dflt rend a style g f add_self NL R U with
       | conj E Len => conj E (conj Len (decode_rel g add_self f))
       end)
    (root_list_style_lines table dflt rend a f add_self)).
Qed.
Print Assumptions C16_system_root_lines.

(* the prefix of one node, exactly: a function of (relative depth, relative
   ancestors' last-flags, own last-flag, has-children) *)
Theorem C16_prefix_of_context : forall g top c,
  pfx_rel g top c
  = match rdepth top c with
    | 0 => []
    | S _ => concat (map (seg_anc g) (rel_flags top c)) ++ seg_self g (n_last c) (has_ch (n_node c))
    end
  /\ length (rel_flags top c) = rdepth top c - 1.
Proof. exact (fun g top c => conj eq_refl (rel_flags_length top c)). Qed.
Print Assumptions C16_prefix_of_context.

(* list style = renderings only (title only when asked for) *)
Theorem C16_list_style : forall table dflt rend a f anc last t add_self trepr ti,
  is_list_style a = true ->
  format_iter table dflt rend f (SNode (anc, last, t)) a add_self = Ok (map rend (node_branch add_self t))
  /\ tree_format_iter table dflt rend trepr f a ti = Ok (title_lines trepr true ti ++ map rend (pre_f f)).
Proof. exact list_style_lines. Qed.
Print Assumptions C16_list_style.

(* format(join=j) / Tree.format(join=j) = j.join(lines of format_iter) *)
Theorem C16_format_is_join : forall table dflt rend trepr f st a add_self ti j,
  format table dflt rend f st a add_self j = res_join j (format_iter table dflt rend f st a add_self)
  /\ tree_format table dflt rend trepr f a ti j = res_join j (tree_format_iter table dflt rend trepr f a ti)
  /\ (forall l l2 r, join_text j [] = [] /\ join_text j [l] = l
                     /\ join_text j (l :: l2 :: r) = l ++ j ++ join_text j (l2 :: r)).
Proof.
  exact (fun table dflt rend trepr f st a add_self ti j =>
           conj eq_refl (conj eq_refl (fun l l2 r => conj eq_refl (conj eq_refl eq_refl)))).
Qed.
Print Assumptions C16_format_is_join.

(* unknown style name: ValueError; tuple of another length: ValueError as
   soon as one node is rendered *)
Theorem C16_errors : forall table dflt rend a f st add_self,
  is_list_style a = false ->
  (resolve_style table dflt a = Err EValue -> format_iter table dflt rend f st a add_self = Err EValue)
  /\ (forall style, resolve_style table dflt a = Ok style -> unpack style = None ->
      format_iter table dflt rend f st a add_self
      = if is_nil (iter_ctxs f st (match st with SRoot => false | SNode _ => add_self end))
        then Ok [] else Err EValue).
Proof. exact format_errors. Qed.
Print Assumptions C16_errors.

(* ================================================================== *)
(* 2. What can be read back                                             *)
(* ================================================================== *)

(* a pre-order list of depths determines the ordered forest (any base depth,
   which need not be known: it is the first entry) *)
Theorem C16_depth_list_determines_shape : forall d f,
  shape_of_depths d (depths_f d f) = shape_f f
  /\ shape_of_depths (hd 0 (depths_f d f)) (depths_f d f) = shape_f f.
Proof. exact (fun d f => conj (shape_of_depths_depths d f) (shape_of_depths_hd d f)). Qed.
Print Assumptions C16_depth_list_determines_shape.

(* depth from the prefix LENGTH, for every style with common widths *)
Theorem C16_depth_from_prefix_length : forall g top c,
  style_okb g = true -> decode_depth g (pfx_rel g top c) = rdepth top c.
Proof. exact decode_depth_pfx. Qed.
Print Assumptions C16_depth_from_prefix_length.

(* decoding, Tree.format: any title setting, any style (table name, default,
   custom 4-/6-tuple) whose segments satisfy style_okb *)
Theorem C16_tree_format_decodes : forall table dflt rend a style g trepr f ti,
  is_list_style a = false ->
  resolve_style table dflt a = Ok style -> unpack style = Some g ->
  style_okb g = true ->
  exists pfx,
    tree_format_iter table dflt rend trepr f a ti
      = Ok (title_lines trepr false ti ++ zip_lines rend pfx (pre_f f))
    /\ length pfx = length (pre_f f)
    /\ decode_shape g pfx = shape_f f.
Proof. exact tree_format_decodes. Qed.
Print Assumptions C16_tree_format_decodes.

(* decoding, Node.format: any start node at any depth, add_self on/off *)
Theorem C16_node_format_decodes : forall table dflt rend a style g f anc last t add_self,
  is_list_style a = false ->
  resolve_style table dflt a = Ok style -> unpack style = Some g ->
  style_okb g = true ->
  exists pfx,
    format_iter table dflt rend f (SNode (anc, last, t)) a add_self
      = Ok (zip_lines rend pfx (node_branch add_self t))
    /\ length pfx = length (node_branch add_self t)
    /\ decode_shape g pfx = node_shape add_self t.
Proof. exact node_format_decodes. Qed.
Print Assumptions C16_node_format_decodes.

(* the same on the emitted lines, when the renderings are known *)
Theorem C16_tree_lines_decode : forall table dflt rend a style g trepr f ti lines,
  is_list_style a = false ->
  resolve_style table dflt a = Ok style -> unpack style = Some g ->
  style_okb g = true ->
  tree_format_iter table dflt rend trepr f a ti = Ok lines ->
  decode_shape g (prefixes_of_lines (skipn (length (title_lines trepr false ti)) lines)
                                    (map rend (pre_f f)))
  = shape_f f.
Proof. exact tree_lines_decode. Qed.
Print Assumptions C16_tree_lines_decode.

Theorem C16_node_lines_decode : forall table dflt rend a style g f anc last t add_self lines,
  is_list_style a = false ->
  resolve_style table dflt a = Ok style -> unpack style = Some g ->
  style_okb g = true ->
  format_iter table dflt rend f (SNode (anc, last, t)) a add_self = Ok lines ->
  decode_shape g (prefixes_of_lines lines (map rend (node_branch add_self t)))
  = node_shape add_self t.
Proof. exact node_lines_decode. Qed.
Print Assumptions C16_node_lines_decode.

(* Tree.format() (the text, default join "\n"): splitting at the line breaks
   gives the lines back, hence the text decodes to the shape, whenever
   renderings, title and segments contain no line break *)
Theorem C16_text_decodes : forall table dflt rend,
  (forall t, ~ In NL (rend t)) ->
  forall a style g trepr f ti txt,
  is_list_style a = false ->
  resolve_style table dflt a = Ok style -> unpack style = Some g ->
  style_okb g = true -> style_nl_free g = true ->
  Forall (fun l => ~ In NL l) (title_lines trepr false ti) ->
  tree_format table dflt rend trepr f a ti [NL] = Ok txt ->
  decode_shape g (prefixes_of_lines (skipn (length (title_lines trepr false ti)) (split_on NL txt))
                                    (map rend (pre_f f)))
  = shape_f f.
Proof. exact tree_text_decodes. Qed.
Print Assumptions C16_text_decodes.

(* str.join / str.split round trip used above, for any separator character *)
Theorem C16_split_join : forall sep ls,
  ls <> [] -> Forall (fun l => ~ In sep l) ls -> split_on sep (join_text [sep] ls) = ls.
Proof. exact split_join. Qed.
Print Assumptions C16_split_join.

(* a branch is printed from contexts RELATIVE to it: the absolute contexts of
   the nodes below any position are the relative ones with the outer flags in front *)
Theorem C16_branch_contexts_are_relative : forall a l,
  ctxs_l a l = map (shift a) (ctxs_l [] l).
Proof. exact ctxs_l_shift. Qed.
Print Assumptions C16_branch_contexts_are_relative.

(* two forests printed with equal prefixes have equal shapes *)
Corollary C16_prefixes_injective : forall g top f1 f2,
  style_okb g = true -> rel_prefixes g top f1 = rel_prefixes g top f2 -> shape_f f1 = shape_f f2.
Proof. exact prefixes_injective. Qed.
Print Assumptions C16_prefixes_injective.

(* flags: for a node that carries a connector, the prefix splits into the
   ancestors' segments and the own segment; where the segments are distinct
   the flags are recovered *)
Theorem C16_flags_from_prefix : forall g top c,
  style_okb g = true -> 1 <= rdepth top c ->
  anc_part g (pfx_rel g top c) = map (seg_anc g) (rel_flags top c)
  /\ own_part g (pfx_rel g top c) = seg_self g (n_last c) (has_ch (n_node c))
  /\ (anc_distinct g = true -> decode_anc g (pfx_rel g top c) = map Some (rel_flags top c))
  /\ (last_distinct g = true -> dec_last g (own_part g (pfx_rel g top c)) = Some (n_last c))
  /\ (hc_distinct g = true -> dec_hc g (own_part g (pfx_rel g top c)) = Some (has_ch (n_node c))).
Proof.
  exact (fun g top c OK D =>
    conj (anc_part_pfx g top c OK D) (conj (own_part_pfx g top c OK D)
    (conj (decode_anc_pfx g top c OK D) (conj (decode_last_pfx g top c OK D) (decode_hc_pfx g top c OK D))))).
Qed.
Print Assumptions C16_flags_from_prefix.

(* all nodes at once, when the roots of the branch carry a connector
   (Tree.format with a title; the descendants of a start node): the prefixes
   give depth, ancestors' flags, own flag - and has-children where the style
   distinguishes it - of every node, in pre-order *)
Theorem C16_all_flags_from_prefixes : forall g roots,
  style_okb g = true ->
  (anc_distinct g = true -> last_distinct g = true ->
   map (fun p => (decode_depth g p, decode_anc g p, dec_last g (own_part g p))) (rel_prefixes g true roots)
   = map (fun c => (S (length (n_anc c)), map Some (n_anc c), Some (n_last c))) (ctxs_l [] roots))
  /\ (hc_distinct g = true ->
      map (fun p => dec_hc g (own_part g p)) (rel_prefixes g true roots)
      = map (fun c => Some (has_ch (n_node c))) (ctxs_l [] roots)).
Proof. exact (fun g roots OK => conj (flags_decode_all g roots OK) (hc_decode_all g roots OK)). Qed.
Print Assumptions C16_all_flags_from_prefixes.

(* The property sentence end to end, in code-level terms.  Tree.format with a
   title prints [title] ++ zip (rel_prefixes g true f) (pre_f f)
   (C16_tree_lines); for a forest with unique node identities and a style
   with common widths, the prefix of EVERY node t encodes: its depth
   (calc_depth), for every member of t.get_parent_list(), in that order,
   whether it is its parent's last child (identity test), whether t itself is
   one, and - in styles that distinguish it - whether t has children. *)
Theorem C16_prefixes_encode_depth_and_flags : forall f g,
  NoDup (ids f) -> style_okb g = true ->
  Forall2 (fun p t => exists nc,
             locate_f (rid t) f = Some nc /\ c_self nc = t
             /\ decode_depth g p = q_depth nc
             /\ (anc_distinct g = true ->
                 decode_anc g p = map (fun a => Some (is_last_located f a)) (q_parent_list nc false false))
             /\ (last_distinct g = true -> dec_last g (own_part g p) = Some (q_is_last nc))
             /\ (hc_distinct g = true -> dec_hc g (own_part g p) = Some (q_has_children nc)))
          (rel_prefixes g true f) (pre_f f).
Proof. exact tree_prefixes_encode. Qed.
Print Assumptions C16_prefixes_encode_depth_and_flags.

(* ================================================================== *)
(* 3. Obligations on the GENERATED style table (finite: vm_compute)     *)
(* ================================================================== *)

(* every entry has 4 or 6 segments with common positive widths wa / ws *)
Theorem C16_table_ok : table_ok CONNECTORS = true.
Proof. vm_compute. reflexivity. Qed.
Print Assumptions C16_table_ok.

(* the default style is an entry of the table *)
Theorem C16_default_style_in_table :
  exists s, lookup_style CONNECTORS DEFAULT_CONNECTOR_STYLE = Some s.
Proof. eexists. vm_compute. reflexivity. Qed.
Print Assumptions C16_default_style_in_table.

(* every style but space1..4 has distinct ancestor segments and distinct
   last/non-last own segments; every 6-segment style has own segments that
   also tell has-children *)
Theorem C16_table_flags_ok : table_flags_ok CONNECTORS = true.
Proof. vm_compute. reflexivity. Qed.
Print Assumptions C16_table_flags_ok.

(* no segment of the table contains a line break *)
Theorem C16_table_nl_free : table_nl_free CONNECTORS = true.
Proof. vm_compute. reflexivity. Qed.
Print Assumptions C16_table_nl_free.

(* hence: whatever Tree.format_iter answers for a style NAME of the real
   table (or the default), with any title, decodes to the shape *)
Theorem C16_generated_styles_decode : forall rend a trepr f ti lines,
  is_list_style a = false -> is_custom a = false ->
  tree_format_iter CONNECTORS DEFAULT_CONNECTOR_STYLE rend trepr f a ti = Ok lines ->
  exists style g, resolve_style CONNECTORS DEFAULT_CONNECTOR_STYLE a = Ok style /\ unpack style = Some g /\
    decode_shape g (prefixes_of_lines (skipn (length (title_lines trepr false ti)) lines)
                                      (map rend (pre_f f)))
    = shape_f f.
Proof.
  exact (fun rend a trepr f ti lines =>
    named_style_decodes CONNECTORS DEFAULT_CONNECTOR_STYLE rend a trepr f ti lines C16_table_ok).
Qed.
Print Assumptions C16_generated_styles_decode.

(* and the flags are readable in every named style that is not space1..4,
   the has-children flag in every compact one *)
Theorem C16_generated_styles_flags : forall n s g,
  lookup_style CONNECTORS n = Some s -> unpack s = Some g ->
  style_okb g = true
  /\ (is_space_style n = false -> anc_distinct g = true /\ last_distinct g = true)
  /\ (length s = 6 -> hc_distinct g = true).
Proof. exact (table_styles_flags CONNECTORS C16_table_ok C16_table_flags_ok). Qed.
Print Assumptions C16_generated_styles_flags.

(* ================================================================== *)
(* 4. Non-vacuity                                                       *)
(* ================================================================== *)
Module Ex.
  Definition i0 : info := I 0 0 0 false [] (DInt 0) None [].
  Definition nd (k : nat) (ch : list rt) : rt := T k i0 ch.
  (* 1(2(4,5(6)),3), 7(8) : depth 4, last and non-last nodes on every level *)
  Definition f : forest := [nd 1 [nd 2 [nd 4 []; nd 5 [nd 6 []]]; nd 3 []]; nd 7 [nd 8 []]].
  Definition rend (t : rt) : text := [Z.of_nat (rid t) + 48; 32; 9474]%Z.   (* looks like a connector *)
  Definition trepr : text := tree_repr [84; 114; 101; 101]%Z [84; 48]%Z.
  Definition lines32c : style_arg := StName [108; 105; 110; 101; 115; 51; 50; 99]%Z.
  Definition custom4 : style_arg := StCustom [[46; 46]; [124; 46]; [96; 62; 62]; [43; 62; 62]]%Z.  (* wa=2 ws=3 *)
  Definition custom6 : style_arg := StCustom [[97]; [98]; [99; 99]; [100; 100]; [101; 101]; [102; 102]]%Z.
  Definition TFI := tree_format_iter CONNECTORS DEFAULT_CONNECTOR_STYLE rend trepr.
  Definition FI := format_iter CONNECTORS DEFAULT_CONNECTOR_STYLE rend.
  Definition g_of (a : style_arg) : option seg6 :=
    match resolve_style CONNECTORS DEFAULT_CONNECTOR_STYLE a with Ok s => unpack s | Err _ => None end.
  Definition body (r : res (list text)) (skip : nat) : list text :=
    match r with Ok l => skipn skip l | Err _ => [] end.
  Definition ok_and (P : seg6 -> bool) (a : style_arg) : bool :=
    match g_of a with Some g => P g | None => false end.
  Definition decoded (a : style_arg) (lines rs : list text) : option (list sh) :=
    option_map (fun g => decode_shape g (prefixes_of_lines lines rs)) (g_of a).
End Ex.

(* the hypotheses of the decoding theorems hold for the default style, a
   compact table style and custom 4-/6-tuples with wa <> ws *)
Example C16_ex_hypotheses :
  map (fun a => (is_list_style a, Ex.ok_and style_okb a))
      [StDefault; Ex.lines32c; Ex.custom4; Ex.custom6]
  = [(false, true); (false, true); (false, true); (false, true)].
Proof. vm_compute. reflexivity. Qed.

(* the exact lines of the compact style lines32c for the example forest,
   with the default title: U+251C U+252C = has-children non-last, ... *)
Example C16_ex_lines :
  Ex.TFI Ex.f Ex.lines32c TiDefault
  = Ok [ [84; 114; 101; 101; 60; 39; 84; 48; 39; 62];             (* Tree<'T0'> *)
         [9500; 9516; 32] ++ Ex.rend (Ex.nd 1 []);                (* ├┬ 1 *)
         [9474; 9500; 9516; 32] ++ Ex.rend (Ex.nd 2 []);          (* │├┬ 2 *)
         [9474; 9474; 9500; 9472; 32] ++ Ex.rend (Ex.nd 4 []);    (* ││├─ 4 *)
         [9474; 9474; 9492; 9516; 32] ++ Ex.rend (Ex.nd 5 []);    (* ││└┬ 5 *)
         [9474; 9474; 32; 9492; 9472; 32] ++ Ex.rend (Ex.nd 6 []);(* ││ └─ 6 *)
         [9474; 9492; 9472; 32] ++ Ex.rend (Ex.nd 3 []);          (* │└─ 3 *)
         [9492; 9516; 32] ++ Ex.rend (Ex.nd 7 []);                (* └┬ 7 *)
         [32; 9492; 9472; 32] ++ Ex.rend (Ex.nd 8 []) ]%Z.        (*  └─ 8 *)
Proof. vm_compute. reflexivity. Qed.

(* decoding on concrete output: tree with and without title, a deep start
   node with add_self on/off, table and custom styles; the shapes are not trivial *)
Example C16_ex_decode :
  let n2 := Ex.nd 2 [Ex.nd 4 []; Ex.nd 5 [Ex.nd 6 []]] in
  Ex.decoded Ex.lines32c (Ex.body (Ex.TFI Ex.f Ex.lines32c TiDefault) 1) (map Ex.rend (pre_f Ex.f)) = Some (shape_f Ex.f)
  /\ Ex.decoded Ex.custom4 (Ex.body (Ex.TFI Ex.f Ex.custom4 TiFalse) 0) (map Ex.rend (pre_f Ex.f)) = Some (shape_f Ex.f)
  /\ Ex.decoded Ex.custom6 (Ex.body (Ex.TFI Ex.f Ex.custom6 (TiText [120]%Z)) 1) (map Ex.rend (pre_f Ex.f)) = Some (shape_f Ex.f)
  /\ Ex.decoded StDefault (Ex.body (Ex.FI Ex.f (SNode ([false], false, n2)) StDefault true) 0) (map Ex.rend (pre n2))
     = Some [shape_t n2]
  /\ Ex.decoded Ex.custom4 (Ex.body (Ex.FI Ex.f (SNode ([false], false, n2)) Ex.custom4 false) 0) (map Ex.rend (pre_f (rch n2)))
     = Some (shape_f (rch n2))
  /\ shape_f Ex.f = [Sh [Sh [Sh []; Sh [Sh []]]; Sh []]; Sh [Sh []]]
  /\ length (Ex.body (Ex.FI Ex.f (SNode ([false], false, n2)) Ex.custom4 false) 0) = 3.
Proof. cbv zeta. repeat split; vm_compute; reflexivity. Qed.

(* ... and from the text of Tree.format() *)
Example C16_ex_text :
  match tree_format CONNECTORS DEFAULT_CONNECTOR_STYLE Ex.rend Ex.trepr Ex.f Ex.lines32c TiDefault [NL] with
  | Ok txt => Ex.decoded Ex.lines32c (skipn 1 (split_on NL txt)) (map Ex.rend (pre_f Ex.f)) = Some (shape_f Ex.f)
              /\ length (split_on NL txt) = 9
  | Err _ => False
  end
  /\ Ex.ok_and style_nl_free Ex.lines32c = true.
Proof. vm_compute. repeat split; reflexivity. Qed.

(* the flags theorem is not vacuous: the compact style has all segments
   distinct, and the flags of node 6 (relative depth 4 under a title) are read back *)
Example C16_ex_flags :
  Ex.ok_and (fun g => style_okb g && anc_distinct g && last_distinct g && hc_distinct g) Ex.lines32c = true
  /\ match Ex.g_of Ex.lines32c with
     | Some g =>
         let p := [9474; 9474; 32; 9492; 9472; 32]%Z in
         (decode_depth g p, decode_anc g p, dec_last g (own_part g p), dec_hc g (own_part g p))
         = (4, [Some false; Some false; Some true], Some true, Some false)
     | None => False
     end.
Proof. split; vm_compute; reflexivity. Qed.

(* the exclusions are real: in space1 nothing but the depth is readable, and
   4-segment styles cannot tell has-children *)
Example C16_ex_space_styles :
  Ex.ok_and (fun g => style_okb g && negb (anc_distinct g) && negb (last_distinct g))
            (StName [115; 112; 97; 99; 101; 49]%Z) = true
  /\ Ex.ok_and (fun g => negb (hc_distinct g)) StDefault = true
  /\ length (filter (fun e => negb (is_space_style (fst e))) CONNECTORS) = 24
  /\ length (filter is_six CONNECTORS) = 4.
Proof. repeat split; vm_compute; reflexivity. Qed.

(* list style and title logic on the example *)
Example C16_ex_list_and_title :
  Ex.TFI Ex.f (StName LIST_STYLE) TiDefault = Ok (map Ex.rend (pre_f Ex.f))
  /\ Ex.TFI Ex.f (StName LIST_STYLE) TiTrue = Ok (Ex.trepr :: map Ex.rend (pre_f Ex.f))
  /\ length (pre_f Ex.f) = 8.
Proof. repeat split; vm_compute; reflexivity. Qed.

(* the relational reading of the flags is satisfiable by a deep context *)
Example C16_ex_context :
  In ([false; false; true], true, Ex.nd 6 []) (ctxs_l [] Ex.f)
  /\ NoDup (ids Ex.f)
  /\ map (fun c => (n_anc c, n_last c)) (ctxs_l [] Ex.f)
     = map (fun c => match locate_f (rid (n_node c)) Ex.f with
                     | Some nc => (map (fun a => match locate_f (rid a) Ex.f with
                                                 | Some ca => q_is_last ca | None => false end)
                                       (q_parent_list nc false false),
                                   q_is_last nc)
                     | None => ([], false)
                     end) (ctxs_l [] Ex.f).
Proof.
  refine (conj _ (conj _ _)).
  - vm_compute. tauto.
  - vm_compute. repeat constructor; cbn; intuition discriminate.
  - vm_compute. reflexivity.
Qed.

(* the generated facts this property uses were lifted from the current source *)
Theorem C16_generated_facts_present : GEN_CONNECTORS_OK = true.
Proof. reflexivity. Qed.
Print Assumptions C16_generated_facts_present.

(* ==== PART PRINT: Tree.print = print(self.format(<the same arguments>), file=file)  (model theories/Forest/MiscPrint.v,
   correspondence Cases/CaseMiscPrint.v with stdout captured, harness parts_misc.PRINT).  [tree_print ... file_given] is
   what is written and where ([SStdout] / [SFile]); there is no Node.print. ==== *)
Import MiscPrint MiscPrintProofs.

(* print writes exactly format(...) of the same arguments plus one newline, to the requested stream *)
Theorem C16_print_is_format : forall table default rend trepr f a ti j fg s t,
  tree_print table default rend trepr f a ti j fg = Ok (s, t) <->
  exists t0, tree_format table default rend trepr f a ti j = Ok t0 /\ t = t0 ++ [10%Z] /\ s = (if fg then SFile else SStdout).
Proof. exact print_ok_iff. Qed.
Print Assumptions C16_print_is_format.

(* when format raises (unknown style name, malformed custom style), print raises the same error and nothing is written *)
Theorem C16_print_error_iff : forall table default rend trepr f a ti j fg e,
  tree_print table default rend trepr f a ti j fg = Err e <-> tree_format table default rend trepr f a ti j = Err e.
Proof. exact print_err_iff. Qed.
Print Assumptions C16_print_error_iff.

(* file= selects the stream and nothing else *)
Theorem C16_print_stream_independent : forall table default rend trepr f a ti j,
  match tree_print table default rend trepr f a ti j true, tree_print table default rend trepr f a ti j false with
  | Ok (s1, t1), Ok (s2, t2) => s1 = SFile /\ s2 = SStdout /\ t1 = t2
  | Err e1, Err e2 => e1 = e2
  | _, _ => False
  end.
Proof. exact print_stream_independent. Qed.
Print Assumptions C16_print_stream_independent.

(* the format text is the output without its last character, and that character is the newline *)
Theorem C16_print_decodes : forall table default rend trepr f a ti j fg s t,
  tree_print table default rend trepr f a ti j fg = Ok (s, t) ->
  tree_format table default rend trepr f a ti j = Ok (removelast t) /\ last t 0%Z = 10%Z.
Proof. exact print_decodes. Qed.
Print Assumptions C16_print_decodes.

(* with the default join: every line of format_iter followed by a newline (no line at all: one bare newline) – so all
   line-level theorems of this file (prefixes, depths, shape recovery) speak about the printed lines *)
Theorem C16_print_lines : forall table default rend trepr f a ti fg ls,
  tree_format_iter table default rend trepr f a ti = Ok ls ->
  tree_print table default rend trepr f a ti [10%Z] fg =
    Ok (if fg then SFile else SStdout, match ls with [] => [10%Z] | _ => flat_map (fun l => l ++ [10%Z]) ls end).
Proof. exact print_default_join_lines. Qed.
Print Assumptions C16_print_lines.

(* tie to the source (gen_facts section MISCPRINT): print passes repr/style/title/join to format under the same names and
   file to the builtin print; its own defaults for these four are format's defaults; file defaults to None *)
Theorem C16_print_source_facts :
  GEN_MISCPRINT_OK = true /\
  map fst PRINT_TO_FORMAT = map snd PRINT_TO_FORMAT /\ map fst PRINT_TO_FORMAT = map fst FORMAT_KWONLY /\
  firstn (length FORMAT_KWONLY) PRINT_KWONLY = FORMAT_KWONLY /\
  skipn (length FORMAT_KWONLY) PRINT_KWONLY = [([102; 105; 108; 101]%Z, [78; 111; 110; 101]%Z)] /\
  PRINT_TO_PRINT = [([102; 105; 108; 101]%Z, [102; 105; 108; 101]%Z)].
Proof. repeat split. Qed.
Print Assumptions C16_print_source_facts.

(* non-vacuity: a two-node tree printed with the default arguments, and an unknown style *)
Example C16_print_ex :
  tree_print CONNECTORS DEFAULT_CONNECTOR_STYLE (fun t => i_name (rinfo t)) (tree_repr [84]%Z [110]%Z)
             [T 1 (I 0 0 0 true [97]%Z (DInt 1) None []) [T 2 (I 1 1 1 true [98]%Z (DInt 2) None []) []]] StDefault TiDefault [10%Z] false =
  Ok (SStdout, [84; 60; 39; 110; 39; 62; 10; 9584; 9472; 9472; 32; 97; 10; 32; 32; 32; 32; 9584; 9472; 9472; 32; 98; 10]%Z) /\
  tree_print CONNECTORS DEFAULT_CONNECTOR_STYLE (fun t => i_name (rinfo t)) (tree_repr [84]%Z [110]%Z)
             [T 1 (I 0 0 0 true [97]%Z (DInt 1) None []) []] (StName [120]%Z) TiDefault [10%Z] true = Err EValue.
Proof. vm_compute. split; reflexivity. Qed.

(* ---- the default rendering templates (model theories/Forest/MiscRender.v, compared on every node by parts_misc.PRINT) ---- *)
Import MiscRepr MiscRender MiscRenderProofs.

(* repr=None: a plain tree shows repr(data) – for an ASCII str the quoted, escaped literal –, a typed tree "kind → str(data)";
   the typed template on a node without kind raises *)
Theorem C16_default_render : forall t given,
  render_with templ_node t given = Some (data_repr t given) /\
  render_with templ_typed t given = match rkind t with Some k => Some (k ++ [32; 8594; 32]%Z ++ i_name (rinfo t)) | None => None end.
Proof. intros t given. exact (conj (render_node_default t given) (render_typed_default t given)). Qed.
Print Assumptions C16_default_render.

(* the shown text determines an ASCII str data value (quotes and backslashes included) *)
Theorem C16_default_render_injective : forall a b ga gb,
  i_isstr (rinfo a) = true -> i_isstr (rinfo b) = true -> is_ascii (i_name (rinfo a)) = true -> is_ascii (i_name (rinfo b)) = true ->
  Forall FsReprDecode.cp_ok (i_name (rinfo a)) -> Forall FsReprDecode.cp_ok (i_name (rinfo b)) ->
  render_with templ_node a ga = render_with templ_node b gb -> i_name (rinfo a) = i_name (rinfo b).
Proof. exact render_node_default_injective. Qed.
Print Assumptions C16_default_render_injective.

(* the templates of the model are the class attributes of the source *)
Theorem C16_default_render_templates_from_source :
  NODE_DEFAULT_RENDER_REPR = templ_node /\ TYPED_DEFAULT_RENDER_REPR = templ_typed.
Proof. split; reflexivity. Qed.
Print Assumptions C16_default_render_templates_from_source.

Example C16_default_render_ex :
  render_with templ_node (T 1 (I 0 0 0 true [105; 116; 39; 115]%Z (DInt 1) None []) []) [] = Some [34; 105; 116; 39; 115; 34]%Z /\
  render_with templ_typed (T 1 (I 0 0 0 true [97]%Z (DInt 1) (Some [107]%Z) []) []) [] = Some [107; 32; 8594; 32; 97]%Z.
Proof. vm_compute. split; reflexivity. Qed.
