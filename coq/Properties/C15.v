(* C15 — Kind-aware queries of a typed tree equal filtering the child list by kind.
   Statements only; proofs are in theories/Forest/NavProofs.v. *)
From Coq Require Import String.
From Coq Require Import List ZArith Bool.
From NT Require Import Sx Rose Nav NavProofs NavLaws NavSource NavSourceTyped.
From NTGen Require Import Generated.
Import ListNotations.

(* children of a kind, first/last child of a kind, has-children of a kind:
   for every child list and every kind *)
Theorem C15_child_queries : forall (ch : list rt) (k : text),
  t_get_children ch (Some k) = filter (kind_is k) ch /\
  t_first_child ch (Some k) = hd_error (filter (kind_is k) ch) /\
  t_last_child ch (Some k) = last_error (filter (kind_is k) ch) /\
  t_has_children ch (Some k) = negb (match filter (kind_is k) ch with [] => true | _ => false end).
Proof. exact typed_child_queries. Qed.
Print Assumptions C15_child_queries.

(* ... with ANY_KIND they are the plain child queries *)
Theorem C15_child_queries_any : forall ch : list rt,
  t_get_children ch None = ch /\ t_first_child ch None = hd_error ch /\
  t_last_child ch None = last_error ch /\
  t_has_children ch None = negb (match ch with [] => true | _ => false end).
Proof. exact typed_child_queries_any. Qed.
Print Assumptions C15_child_queries_any.

(* siblings, first/last/previous/next sibling, index, is-first/is-last of a
   node of kind k: for every forest with unique node identities and every
   node in it (top-level nodes included: their sibling list is the forest),
   the kind-aware query is the plain query evaluated in the sibling list
   filtered by the node's kind *)
Theorem C15_sibling_queries : forall (f : forest) (n : nat) (c : ctx) (k : text),
  NoDup (ids f) -> locate_f n f = Some c -> rkind (c_self c) = Some k ->
  (forall a, t_siblings c false a = q_siblings (fctx c) a) /\
  t_first_sibling c false = q_first_sibling (fctx c) /\
  t_last_sibling c false = q_last_sibling (fctx c) /\
  t_prev c false = q_prev (fctx c) /\
  t_next c false = q_next (fctx c) /\
  t_index c false = q_index (fctx c) /\
  t_is_first c false = q_is_first (fctx c) /\
  t_is_last c false = q_is_last (fctx c).
Proof. exact typed_sibling_queries. Qed.
Print Assumptions C15_sibling_queries.

Theorem C15_fctx_is_kind_filter : forall c : ctx,
  c_sibs (fctx c) = filter (fun t => same_kind t (c_self c)) (c_sibs c) /\ c_self (fctx c) = c_self c.
Proof. exact fctx_is_filter. Qed.
Print Assumptions C15_fctx_is_kind_filter.

(* any_kind=True: equal to the untyped queries, for top-level nodes as well *)
Theorem C15_sibling_queries_any : forall (f : forest) (n : nat) (c : ctx),
  NoDup (ids f) -> locate_f n f = Some c ->
  (forall a, t_siblings c true a = q_siblings c a) /\
  t_first_sibling c true = q_first_sibling c /\
  t_last_sibling c true = q_last_sibling c /\
  t_prev c true = q_prev c /\
  t_next c true = q_next c /\
  t_index c true = q_index c /\
  t_is_first c true = q_is_first c /\
  t_is_last c true = q_is_last c.
Proof. exact typed_sibling_queries_any. Qed.
Print Assumptions C15_sibling_queries_any.

(* every node of the forest has a context (the quantifier "every node" is not vacuous) *)
Theorem C15_every_node_located : forall (f : forest) (t : rt),
  NoDup (ids f) -> In t (pre_f f) -> exists c, locate_f (rid t) f = Some c /\ c_self c = t /\ ctx_ok f c.
Proof. exact locate_f_self. Qed.
Print Assumptions C15_every_node_located.

(* iterate-by-kind *)
Theorem C15_iter_by_type : forall (f : forest) (k : text),
  t_iter_by_type f (Some k) = filter (kind_is k) (pre_f f) /\ t_iter_by_type f None = pre_f f.
Proof. intros f k. split; [exact (typed_iter_by_type f k)|exact (typed_iter_any f)]. Qed.
Print Assumptions C15_iter_by_type.

(* the same in positional form, without reference to the plain queries: split the sibling list FILTERED by the
   node's kind at the node; index = number of same-kind siblings before it, previous / next = the nearest
   same-kind sibling before / after it, first / last = the ends of the filtered list *)
Theorem C15_typed_positions : forall (f : forest) (n : nat) (c : ctx) (k : text),
  NoDup (ids f) -> locate_f n f = Some c -> rkind (c_self c) = Some k ->
  exists l1 l2,
    filter (fun t => same_kind t (c_self c)) (c_sibs c) = l1 ++ c_self c :: l2 /\
    (forall x, In x (l1 ++ l2) -> rkind x = Some k /\ In x (c_sibs c) /\ rid x <> rid (c_self c)) /\
    t_index c false = Some (length l1) /\
    t_prev c false = last_error l1 /\
    t_next c false = hd_error l2 /\
    t_first_sibling c false = hd_error (l1 ++ [c_self c]) /\
    t_last_sibling c false = last_error (c_self c :: l2) /\
    (t_is_first c false = true <-> l1 = []) /\
    (t_is_last c false = true <-> l2 = []) /\
    t_siblings c false false = l1 ++ l2 /\
    t_siblings c false true = l1 ++ c_self c :: l2.
Proof. exact typed_positions. Qed.
Print Assumptions C15_typed_positions.

(* ================================================================== *)
(* Source tie: lexical facts lifted from nutree/typed_tree.py            *)
(* (Generated.v, section NAVT) agree with what the model computes         *)
(* ================================================================== *)

(* the typed position accessors find the node BY IDENTITY (`is self` / Node.get_index(self)) in
   self._parent._children, never by ==/in/list.index; every `==` they contain compares kinds *)
Theorem C15_source_identity_and_kind_compares : GEN_NAV_OK = true /\ GEN_NAVT_OK = true /\ typed_identity_ok = true.
Proof. exact typed_identity_holds. Qed.
Print Assumptions C15_source_identity_and_kind_compares.

(* has_children(kind): the comparison `len(self.get_children(kind)) <op> <k>` of the source, evaluated, is the model *)
Theorem C15_source_has_children : forall (ch : list rt) (k : text),
  cmp_eval NAV_T_HAS_CHILDREN_OP (Z.of_nat (length (t_get_children ch (Some k)))) NAV_T_HAS_CHILDREN_K
  = Some (t_has_children ch (Some k)).
Proof. exact typed_has_children_agrees. Qed.
Print Assumptions C15_source_has_children.

(* next_sibling: guard `own_idx <op> pc_len + <k>` and scan start `own_idx + <s>` of the source give the model *)
Theorem C15_source_next_sibling : forall (c : ctx) (any : bool) (i : nat),
  index_of (rid (c_self c)) (c_sibs c) = Some i ->
  t_next c any =
  match cmp_eval NAV_T_NEXT_GUARD_OP (Z.of_nat i) (Z.of_nat (length (c_sibs c)) + NAV_T_NEXT_GUARD_ADD)%Z with
  | Some true => find (fun t => any || same_kind t (c_self c))
                      (skipn (Z.to_nat (Z.of_nat i + NAV_T_NEXT_RANGE_START)) (c_sibs c))
  | _ => None
  end.
Proof. exact typed_next_agrees. Qed.
Print Assumptions C15_source_next_sibling.

(* prev_sibling: guard `own_idx <op> <k>`, downward scans to index 0 inclusive (also in last_child) *)
Theorem C15_source_prev_sibling : forall (c : ctx) (any : bool) (i : nat),
  index_of (rid (c_self c)) (c_sibs c) = Some i ->
  t_prev c any =
  match cmp_eval NAV_T_PREV_GUARD_OP (Z.of_nat i) NAV_T_PREV_GUARD_K with
  | Some true => find (fun t => any || same_kind t (c_self c)) (rev (firstn i (c_sibs c)))
  | _ => None
  end /\
  NAV_T_PREV_RANGE = [-1; -1; -1]%Z /\ NAV_T_LAST_CHILD_RANGE = [-1; -1; -1]%Z.
Proof. exact typed_prev_agrees. Qed.
Print Assumptions C15_source_prev_sibling.

(* the ANY_KIND / any_kind=True branches index the full list at the literal subscripts of the source *)
Theorem C15_source_subscripts : forall (c : ctx) (ch : list rt),
  t_first_child ch None = py_at ch (tsub_lit "TypedNode.first_child") /\
  t_last_child ch None = py_at ch (tsub_lit "TypedNode.last_child") /\
  t_first_sibling c true = py_at (c_sibs c) (tsub_lit "TypedNode.first_sibling") /\
  t_last_sibling c true = py_at (c_sibs c) (tsub_lit "TypedNode.last_sibling") /\
  t_is_first c true = match py_at (c_sibs c) (tsub_lit "TypedNode.is_first_sibling") with
                      | Some t => is_self (rid (c_self c)) t | None => false end /\
  t_is_last c true = match py_at (c_sibs c) (tsub_lit "TypedNode.is_last_sibling") with
                     | Some t => is_self (rid (c_self c)) t | None => false end /\
  tsub_var "TypedNode.prev_sibling" = 0%Z /\ tsub_var "TypedNode.next_sibling" = 0%Z /\ tsub_var "TypedNode.last_child" = 0%Z.
Proof. exact typed_subscripts_agree. Qed.
Print Assumptions C15_source_subscripts.

(* non-vacuity: a forest with mixed kinds meets the hypotheses, and the
   kind filter really drops siblings *)
Example C15_nonvacuous :
  let i k := I 0 0 0 true [] (DInt 0) (Some [k]) [] in
  let f := [T 1 (i 97%Z) []; T 2 (i 98%Z) []; T 3 (i 97%Z) [T 4 (i 98%Z) []]] in
  NoDup (ids f) /\
  (exists c, locate_f 3 f = Some c /\ rkind (c_self c) = Some [97%Z] /\
             map rid (c_sibs (fctx c)) = [1; 3] /\ option_map rid (t_prev c false) = Some 1 /\
             option_map rid (t_prev c true) = Some 2).
Proof.
  cbv zeta. split.
  - vm_compute. repeat constructor; cbn; intuition discriminate.
  - eexists. split; [vm_compute; reflexivity|]. vm_compute. repeat split.
Qed.
