(* C07 - copies are faithful to the source and independent of it.
   Statements only; proofs are in theories/Mut/Copy*.v (on the mutation machine
   theories/Mut/Machine.v, which harness/props/C07.py ties to the implementation
   after every step of every generated history).

   WHAT IS DECIDED BY THEOREMS, AND WHAT ONLY BY THE HARNESS ORACLE.
   The model is a pure value model: a world is a list of tree VALUES, a forest holds its child
   lists and metadata by value.  Theorems decide:
     * faithfulness: the new branch = the source branch up to identities ([strip_ids]; same data
       objects, data_ids, kinds, order, shape), for every copy operation and every `before`;
     * freshness: the new identities are next, next+1, ... ; in no tree of a reachable world before;
     * where the copies go (one block, source order) and that the copy step leaves every existing
       row of the target tree / the whole state of every other tree as it was;
     * frame per tree: no operation writes a tree it does not work on; locality: none reads one
       outside its footprint;
     * inside one tree: operations that do not name clones and work outside a branch leave that
       branch identical ([C07_same_tree_frame]).
   In such a model "the source is untouched by the copy" and "a later change of one side does
   not show on the other" hold BY CONSTRUCTION as far as they concern SHARED MUTABLE STRUCTURE
   (one `_children` list or `_meta` dict or Node object reachable from both sides): sharing is
   not representable, so the frame/independence theorems below only say that the machine writes
   at the index it names - they carry no weight against aliasing in the implementation.  These
   clauses are decided by the harness only, on every generated case (harness/mut_c07.py):
     * `copy_oracle`: every copied node is a NEW object, `copy._children is not src._children`,
       `copy._meta is not src._meta`, same data OBJECT (`is`); every node object that existed
       before has the same data object, data_id, kind, meta dict (same object, same content),
       parent, tree and the same children list OBJECT with the same elements in the same order
       (the caller-visible order of the source) - also after a refused copy;
     * `independence_oracle` (i): after EVERY later step every tree the operation does not work
       on is pointer-identical (objects, payloads, meta dicts and contents, child lists);
       (ii) same-tree copies: branch-local operations inside one branch leave the other untouched;
     * the correspondence of the full observable state of every tree after every step.
   SAME-TREE COPIES ARE CLONES.  A copy made inside the tree of its source has the data_id of
   its source, i.e. it is a clone of it.  The English clause "later changes to either side are
   never visible in the other" is therefore FALSE as written for such copies:
   remove(with_clones=True) / set_data(with_clones=True) on one reaches the other
   ([C07_same_tree_copy_is_a_clone]).  This is the library's documented clone semantics, not a
   defect.  What is stated: (a) full independence across DIFFERENT trees, (b) inside one tree
   the restricted form [C07_same_tree_frame].
   Domain notes: copy_to(add_self=False) must be called with before=None (the library asserts it;
   the model ignores `before` there; the harness never passes one); the top node of a typed copy
   made through add_child gets the default kind (known finding D47, refuted full statement below).

   Vocabulary.
   [strip_ids ty t] : the branch t without node identities and without the
     per-node metadata (a copy starts without metadata: the dict is neither
     shared nor copied); for ty = false (plain tree: nodes have no kind) the kind
     is erased as well.  Two branches with equal [strip_ids] have, position by
     position, the same data objects ([i_obj], Python `is`), equality classes,
     hashes, names, data_ids, (typed) kinds, the same shape and child order
     ([C07_strip_eq_spelled]).
   [is_copy ty deep topk n s x] : x is the copy made of s at identity n: top node =
     data object and data_id of s, kind topk (the kind= argument or the default
     kind - the pinned behaviour D47), no metadata; children = those of s with new
     identities (deep) or none (shallow); identities = n, n+1, ... in pre-order.
   [rows 0 f] : pre-order list of (parent id, node id, payload) of a forest;
   [ins_rows blk l l'] : l' is l with the block blk inserted, all else in place;
   [subseq l l'] : l is l' with some elements left out (same order).
   [copy_rel ty dp topk lo hi c x] : is_copy of c at some identity, all identities of x in [lo, hi).
   [copies ty dp topk f n srcs xs n'] : xs are the copies of the nodes srcs of the forest f, made one after
     the other at consecutive identities n .. n'.   [src_ok f0 f p src] : node src of f0 is still found in f with
     the same payload, and as the same branch unless p is inside it.
   [place_all nb xs ch] : the child list after inserting xs one by one with the same `before`.
   [op_tree o] / [op_reads o] / [op_footprint o] : the tree an operation works on / reads its copy source
     from / both.   [same_on S w1 w2], [sim S x1 x2] : see the locality section. *)
From Coq Require Import List ZArith Bool Arith Lia Permutation.
From NT Require Import Sx Rose Surgery SurgeryFacts Machine WF MachineFacts Effects FrameTrees CopyFacts CopyMulti CopyWF CopyLocal CopySame CopyClone CaseMut.
From NTGen Require Import Generated.
Import ListNotations.

(* ---- the recursive copy (Node._add_from) ---- *)

(* faithful: equal to the source up to identities *)
Theorem C07_copy_faithful : forall ty f n,
  map (strip_ids ty) (fst (copy_f ty None n f)) = map (strip_ids ty) f.
Proof. exact copy_f_faithful. Qed.
Print Assumptions C07_copy_faithful.

Theorem C07_copy_faithful_t : forall ty t n, strip_ids ty (fst (copy_t ty None n t)) = strip_ids ty t.
Proof. exact copy_t_faithful. Qed.
Print Assumptions C07_copy_faithful_t.

(* fresh: the new identities are exactly n, n+1, ..., n+size-1 in pre-order - all >= n,
   pairwise distinct, as many as the source has nodes; the allocator moves past them *)
Theorem C07_copy_fresh : forall kk dk f n,
  ids (fst (copy_f kk dk n f)) = seq n (size_f f) /\ snd (copy_f kk dk n f) = n + size_f f.
Proof. intros. split; [apply copy_f_ids|apply copy_f_next]. Qed.
Print Assumptions C07_copy_fresh.

Theorem C07_copy_fresh_spelled : forall kk dk f n,
  let c := ids (fst (copy_f kk dk n f)) in
  (forall m, In m c -> n <= m < n + size_f f) /\ NoDup c /\ length c = size_f f.
Proof.
  intros kk dk f n. cbv zeta. rewrite copy_f_ids.
  split; [intros m Hm; apply in_seq in Hm; lia|split; [apply seq_NoDup|apply seq_length]].
Qed.
Print Assumptions C07_copy_fresh_spelled.

(* a copy has no metadata *)
Theorem C07_copy_no_meta : forall kk dk f n, Forall no_meta (pre_f (fst (copy_f kk dk n f))).
Proof. intros. apply copy_no_meta. Qed.
Print Assumptions C07_copy_no_meta.

(* what equality after stripping means *)
Theorem C07_strip_eq_spelled : forall kk a b, strip_ids kk a = strip_ids kk b ->
  map i_obj (infos a) = map i_obj (infos b) /\
  map i_did (infos a) = map i_did (infos b) /\
  map i_name (infos a) = map i_name (infos b) /\
  (kk = true -> map i_kind (infos a) = map i_kind (infos b)) /\
  shape a = shape b /\ size a = size b.
Proof. exact strip_eq_spelled. Qed.
Print Assumptions C07_strip_eq_spelled.

(* ---- tie to the source: the default kind is the value read from typed_tree.py on every run ---- *)
Theorem C07_default_kind_generated : forall t k,
  default_kind t k = if typed t then Some (match k with Some x => x | None => DEFAULT_CHILD_TYPE end) else None.
Proof. intros t [x|]; unfold default_kind; destruct (typed t); reflexivity. Qed.
Print Assumptions C07_default_kind_generated.

(* ---- add_child(node) shallow/deep, copy_to(add_self=True), every `before` ---- *)
Theorem C07_add_node : forall w ti p sti src e k b deep r w',
  op_add_node w ti p sti src e k b deep = (Ok r, w') ->
  exists t st s pq ch x t',
    get_tree w ti = Some t /\ get_tree w sti = Some st /\ get_tree w' ti = Some t' /\
    get_node src (forest_of st) = Some s /\
    parent_path p (forest_of t) = Some pq /\ get_ch pq (forest_of t) = Some ch /\
    typed t = typed st /\
    r = [next w] /\
    (* faithful + fresh *)
    is_copy (typed t) (deep_of deep) (default_kind t k) (next w) s x /\
    next w' = next w + size x /\
    (* where it goes *)
    get_ch pq (forest_of t') = Some (place (norm_before b) x ch) /\
    (* source unchanged, same tree: one block of new rows, every existing row as it was *)
    ins_rows (rows_t p x) (rows 0 (forest_of t)) (rows 0 (forest_of t')) /\
    forest_of t' = upd_ch pq (place (norm_before b) x) (forest_of t) /\
    typed t' = typed t /\ calc t' = calc t /\
    before_ok (norm_before b) ch = true /\
    (* source unchanged, other tree: the state is identical *)
    (forall tj, tj <> ti -> get_tree w' tj = get_tree w tj).
Proof. exact add_node_effect. Qed.
Print Assumptions C07_add_node.

Theorem C07_copy_to_self : forall w sti src ti target b deep,
  op_copy_to w sti src ti target true b deep = op_add_node w ti target sti src None None b (Some deep).
Proof. reflexivity. Qed.
Print Assumptions C07_copy_to_self.

(* ---- Tree.copy() ---- *)
Theorem C07_tree_copy : forall w sti r w',
  op_tree_copy w sti = (Ok r, w') ->
  exists st kids rg ix,
    get_tree w sti = Some st /\ r = [length (trees w)] /\
    trees w' = trees w ++ [TS kids rg ix (typed st) None] /\
    map (strip_ids (typed st)) kids = map (strip_ids (typed st)) (forest_of st) /\
    ids kids = seq (next w) (size_f (forest_of st)) /\
    Forall no_meta (pre_f kids) /\
    next w' = next w + size_f (forest_of st) /\
    rg = ids kids /\ IdxOK ix (keys kids).
Proof. exact tree_copy_effect. Qed.
Print Assumptions C07_tree_copy.

Theorem C07_tree_copy_total : forall w sti st,
  get_tree w sti = Some st -> exists w', op_tree_copy w sti = (Ok [length (trees w)], w').
Proof. exact tree_copy_total. Qed.
Print Assumptions C07_tree_copy_total.

(* ---- Node.copy(add_self) ---- *)
Theorem C07_node_copy : forall w sti src add_self r w',
  op_node_copy w sti src add_self = (Ok r, w') ->
  exists st s kids rg ix,
    get_tree w sti = Some st /\ get_node src (forest_of st) = Some s /\ r = [length (trees w)] /\
    trees w' = trees w ++ [TS kids rg ix (typed st) None] /\
    (if add_self
     then exists x, kids = [x] /\ is_copy (typed st) true (default_kind st None) (next w) s x
     else map (strip_ids (typed st)) kids = map (strip_ids (typed st)) (rch s) /\
          ids kids = seq (next w) (size_f (rch s))) /\
    Forall no_meta (pre_f kids) /\
    next w' = next w + (if add_self then size s else size_f (rch s)) /\
    rg = ids kids /\ IdxOK ix (keys kids).
Proof. exact node_copy_effect. Qed.
Print Assumptions C07_node_copy.

(* the tree built by a copy is well-formed (C01-C03 invariant) when the source was *)
Theorem C07_fresh_copy_WF : forall ty kids rg ix src n c,
  map (strip_ids ty) kids = map (strip_ids ty) src -> SU src ->
  ids kids = seq n (size_f src) -> 0 < n -> rg = ids kids -> IdxOK ix (keys kids) ->
  WF (TS kids rg ix ty c).
Proof. exact WF_fresh_copy. Qed.
Print Assumptions C07_fresh_copy_WF.

(* ---- add(tree): all top-level nodes of another tree, every `before`, deep or shallow ---- *)
(* [copy_rel ty dp topk lo hi c x] : x is the copy of c (is_copy) and all its identities are in [lo, hi).
   [block_pos b a c _] : where the block sits in the old child list a ++ c: appended (None/False),
   prepended (True), at the index as list.insert resolves it against the old list, directly in front
   of the named child.  The copies are ONE block, in SOURCE ORDER, for every `before` (fix D70). *)
Theorem C07_add_tree : forall w ti p sti b deep r w' t st ch,
  op_add_tree w ti p sti b deep = (Ok r, w') -> ti <> sti ->
  get_tree w ti = Some t -> get_tree w sti = Some st ->
  children_of p (forest_of t) = Some ch ->
  (forall n, In n (ids (forest_of t)) -> n < next w) -> NoDup (ids (forest_of st)) ->
  exists t' pq a c xs,
    get_tree w' ti = Some t' /\ get_tree w' sti = Some st /\
    parent_path p (forest_of t) = Some pq /\ ch = a ++ c /\
    get_ch pq (forest_of t') = Some (a ++ xs ++ c) /\
    Forall2 (copy_rel (typed t) (deep_tree deep) (default_kind t None) (next w) (next w')) (forest_of st) xs /\
    block_pos b a c (match forest_of st with [] => false | _ => true end) /\
    (forall tj, tj <> ti -> get_tree w' tj = get_tree w tj).
Proof. exact add_tree_effect. Qed.
Print Assumptions C07_add_tree.

(* ---- copy_to(add_self=False) / Tree.copy_to: the children of src appended in source order ---- *)
Theorem C07_copy_to_children : forall w sti src ti target b deep r w' t st ch sch,
  op_copy_to w sti src ti target false b deep = (Ok r, w') -> ti <> sti ->
  get_tree w ti = Some t -> get_tree w sti = Some st ->
  children_of target (forest_of t) = Some ch ->
  children_of src (forest_of st) = Some sch ->
  NoDup (ids (forest_of st)) ->
  exists t' pq xs,
    get_tree w' ti = Some t' /\ get_tree w' sti = Some st /\
    parent_path target (forest_of t) = Some pq /\
    get_ch pq (forest_of t') = Some (ch ++ xs) /\
    Forall2 (copy_rel (typed t) deep (default_kind t None) (next w) (next w')) sch xs /\ sch <> [] /\
    (forall tj, tj <> ti -> get_tree w' tj = get_tree w tj).
Proof. exact copy_to_children_effect. Qed.
Print Assumptions C07_copy_to_children.

(* the same two calls into ANY tree (the source tree itself included): every row (parent, node,
   payload) the target tree had is still there, in the same order; the allocator only advances *)
Theorem C07_add_tree_rows : forall w ti p sti b deep r w' t,
  op_add_tree w ti p sti b deep = (Ok r, w') -> get_tree w ti = Some t ->
  exists t', get_tree w' ti = Some t' /\ subseq (rows 0 (forest_of t)) (rows 0 (forest_of t')) /\ next w <= next w'.
Proof. exact add_tree_rows. Qed.
Print Assumptions C07_add_tree_rows.

Theorem C07_copy_to_children_rows : forall w sti src ti target b deep r w' t,
  op_copy_to w sti src ti target false b deep = (Ok r, w') -> get_tree w ti = Some t ->
  exists t', get_tree w' ti = Some t' /\ subseq (rows 0 (forest_of t)) (rows 0 (forest_of t')) /\ next w <= next w'.
Proof. exact copy_to_children_rows. Qed.
Print Assumptions C07_copy_to_children_rows.

(* inserting several nodes with one fixed `before` (the loop of add(tree)) *)
Theorem C07_place_all : forall xs ch,
  place_all NApp xs ch = ch ++ xs /\
  (forall j, j <= length ch -> place_all (NIdx (Z.of_nat j)) xs ch = firstn j ch ++ rev xs ++ skipn j ch) /\
  (forall s a t b, ch = a ++ t :: b -> rid t = s -> Forall (fun u => rid u <> s) a -> Forall (fun u => rid u <> s) xs ->
                   place_all (NNode s) xs ch = a ++ xs ++ t :: b).
Proof.
  intros xs ch. split; [apply place_all_app|split].
  - intros j Hj. now apply place_all_idx.
  - intros s a t b -> H1 H2 H3. now apply place_all_node.
Qed.
Print Assumptions C07_place_all.

(* ---- copying inside one tree: the source branch stays, identical as a value ---- *)
Theorem C07_add_node_same_tree : forall w ti p src e k b deep r w' t s,
  op_add_node w ti p ti src e k b deep = (Ok r, w') ->
  get_tree w ti = Some t -> NoDup (ids (forest_of t)) -> (forall n, In n (ids (forest_of t)) -> n < next w) ->
  get_node src (forest_of t) = Some s ->
  exists t', get_tree w' ti = Some t' /\ NoDup (ids (forest_of t')) /\
    (~ In p (ids_t s) -> get_node src (forest_of t') = Some s) /\
    (deep = Some true -> ~ In p (ids_t s)).
Proof. exact add_node_same_tree. Qed.
Print Assumptions C07_add_node_same_tree.

(* several sources inside ONE tree: every single copy changes the tree the next source is read from; still
   the copies are copies of the nodes as they were before the call ([copies ... f0 ...] refers to the forest
   f0 before the call), they get consecutive fresh identities, and the tree keeps distinct identities *)
Theorem C07_add_nodes_same_tree : forall ti p b deep f0 srcs w acc r w' t pq ch,
  add_nodes w ti p ti srcs b deep acc = (Ok r, w') ->
  get_tree w ti = Some t -> NoDup (ids (forest_of t)) -> (forall n, In n (ids (forest_of t)) -> n < next w) ->
  parent_path p (forest_of t) = Some pq -> get_ch pq (forest_of t) = Some ch ->
  (forall src, In src srcs -> src_ok f0 (forest_of t) p src) ->
  (deep_of deep = true -> forall src s0, In src srcs -> get_node src f0 = Some s0 -> ~ In p (ids_t s0)) ->
  exists xs t',
    r = acc ++ map rid xs /\ get_tree w' ti = Some t' /\
    copies (typed t) (deep_of deep) (default_kind t None) f0 (next w) srcs xs (next w') /\
    get_ch pq (forest_of t') = Some (place_all (norm_before b) xs ch) /\
    NoDup (ids (forest_of t')) /\ (forall n, In n (ids (forest_of t')) -> n < next w').
Proof. exact add_nodes_same. Qed.
Print Assumptions C07_add_nodes_same_tree.

(* copy_to(add_self=False) to another place of the same tree *)
Theorem C07_copy_to_children_same_tree : forall w ti src target b deep r w' t ch sch,
  op_copy_to w ti src ti target false b deep = (Ok r, w') ->
  get_tree w ti = Some t -> NoDup (ids (forest_of t)) -> (forall n, In n (ids (forest_of t)) -> n < next w) ->
  children_of target (forest_of t) = Some ch ->
  children_of src (forest_of t) = Some sch ->
  exists t' pq xs,
    get_tree w' ti = Some t' /\
    parent_path target (forest_of t) = Some pq /\
    get_ch pq (forest_of t') = Some (ch ++ xs) /\
    Forall2 (copy_rel (typed t) deep (default_kind t None) (next w) (next w')) sch xs /\ sch <> [] /\
    NoDup (ids (forest_of t')) /\
    subseq (rows 0 (forest_of t)) (rows 0 (forest_of t')).
Proof. exact copy_to_children_same. Qed.
Print Assumptions C07_copy_to_children_same_tree.

(* add(tree) below one of the tree's OWN nodes (only a shallow copy can succeed there): one block, in source
   order, copies of the top-level nodes as they were; every row of the tree is still there in order *)
Theorem C07_add_tree_same_tree : forall w ti p b deep r w' t ch,
  op_add_tree w ti p ti b deep = (Ok r, w') ->
  get_tree w ti = Some t -> NoDup (ids (forest_of t)) -> (forall n, In n (ids (forest_of t)) -> n < next w) ->
  children_of p (forest_of t) = Some ch ->
  exists t' pq a c xs,
    get_tree w' ti = Some t' /\ parent_path p (forest_of t) = Some pq /\ ch = a ++ c /\
    get_ch pq (forest_of t') = Some (a ++ xs ++ c) /\
    Forall2 (copy_rel (typed t) (deep_tree deep) (default_kind t None) (next w) (next w')) (forest_of t) xs /\
    block_pos b a c (match forest_of t with [] => false | _ => true end) /\
    NoDup (ids (forest_of t')) /\
    subseq (rows 0 (forest_of t)) (rows 0 (forest_of t')).
Proof. exact add_tree_same. Qed.
Print Assumptions C07_add_tree_same_tree.

(* the loop of add(tree), for every `before`: one block in source order *)
Theorem C07_add_tree_block : forall b ch xs0,
  (forall s, b = BNode s -> xs0 <> [] -> before_ok (NNode s) ch = true /\ Forall (fun u => rid u <> s) xs0) ->
  exists a c, ch = a ++ c /\
    place_all (norm_before (tree_b' b (length ch))) xs0 ch =
      a ++ (match tree_jb b (length ch) with Some _ => rev xs0 | None => xs0 end) ++ c /\
    block_pos b a c (match xs0 with [] => false | _ => true end).
Proof. exact add_tree_block. Qed.
Print Assumptions C07_add_tree_block.

(* ---- inside ONE tree: the restricted independence (a same-tree copy is a clone of its source) ---- *)
(* [local_op ti n o] : o is set_meta/clear_meta/update_meta, add_child(data), remove_children, remove() without
   keep_children and without with_clones, a non-deep sort_children, set_data without with_clones=True or rename - on
   node n of tree ti.  [outside f b n] : n is not in the branch b and b is not below n.
   [still_there ti b w'] : b is a branch of tree ti of w' - the identical value (identities, payloads, metadata,
   child order).  Whatever the outcome of the operation.  With b = the copy and n in the source branch, and
   with b = the source branch and n in the copy: changes on one side do not reach the other. *)
Theorem C07_same_tree_frame : forall w ti n t b,
  get_tree w ti = Some t -> NoDup (ids (forest_of t)) -> In b (pre_f (forest_of t)) ->
  outside (forest_of t) b n -> forall o, local_op ti n o -> still_there ti b (snd (step w o)).
Proof. exact same_tree_frame. Qed.
Print Assumptions C07_same_tree_frame.

(* ---- Tree.copy / Node.copy keep the world well-formed (the C01-C03 invariant) ---- *)
Theorem C07_tree_copy_WFw : forall w sti r w',
  WFw w -> 0 < next w -> op_tree_copy w sti = (Ok r, w') -> WFw w'.
Proof. exact tree_copy_WFw. Qed.
Print Assumptions C07_tree_copy_WFw.

Theorem C07_node_copy_WFw : forall w sti src add_self r w',
  WFw w -> 0 < next w -> op_node_copy w sti src add_self = (Ok r, w') -> WFw w'.
Proof. exact node_copy_WFw. Qed.
Print Assumptions C07_node_copy_WFw.

(* the same without the redundant hypothesis (0 < next w is a clause of WFw) *)
Theorem C07_tree_copy_WFw' : forall w sti r w', WFw w -> op_tree_copy w sti = (Ok r, w') -> WFw w'.
Proof. exact tree_copy_WFw'. Qed.
Print Assumptions C07_tree_copy_WFw'.

Theorem C07_node_copy_WFw' : forall w sti src add_self r w',
  WFw w -> op_node_copy w sti src add_self = (Ok r, w') -> WFw w'.
Proof. exact node_copy_WFw'. Qed.
Print Assumptions C07_node_copy_WFw'.

(* fresh = in NO tree of the world before (reachable worlds satisfy WFw) *)
Theorem C07_add_node_fresh_everywhere : forall w ti p sti src e k b deep r w', WFw w ->
  op_add_node w ti p sti src e k b deep = (Ok r, w') ->
  exists t' x, get_tree w' ti = Some t' /\ In x (pre_f (forest_of t')) /\ rid x = next w /\
     forall m, In m (ids_t x) -> ~ In m (all_ids w).
Proof. exact add_node_fresh_everywhere. Qed.
Print Assumptions C07_add_node_fresh_everywhere.

Theorem C07_tree_copy_fresh_everywhere : forall w sti r w', WFw w -> op_tree_copy w sti = (Ok r, w') ->
  exists tc, nth_error (trees w') (length (trees w)) = Some tc /\
             forall m, In m (ids (forest_of tc)) -> ~ In m (all_ids w).
Proof. exact tree_copy_fresh_everywhere. Qed.
Print Assumptions C07_tree_copy_fresh_everywhere.

(* the correspondence runs [CaseMut.step_chk]: it is [step] whenever the references of the operation are live *)
Theorem C07_step_chk_is_step : forall w o,
  (op_live w o = true /\ step_chk w o = step w o) \/ (op_live w o = false /\ step_chk w o = (Err EModel, w)).
Proof. exact step_chk_is_step. Qed.
Print Assumptions C07_step_chk_is_step.

(* ---- source unchanged / independent ---- *)

(* every operation, whatever its outcome, leaves every tree it does not work on exactly
   as it was (forest with child order, payloads, registry, index) *)
Theorem C07_step_other_tree : forall w o b,
  b < length (trees w) -> op_tree o <> Some b ->
  nth_error (trees (snd (step w o))) b = nth_error (trees w) b.
Proof. exact step_other_tree. Qed.
Print Assumptions C07_step_other_tree.

(* the copy operations are the ones that read another tree; reading does not modify *)
Theorem C07_reading_does_not_modify : forall w o s,
  op_reads o = Some s -> op_tree o <> Some s -> s < length (trees w) ->
  get_tree (snd (step w o)) s = get_tree w s.
Proof. exact reading_does_not_modify. Qed.
Print Assumptions C07_reading_does_not_modify.

(* histories *)
Theorem C07_independent : forall ops w b,
  b < length (trees w) -> Forall (fun o => op_tree o <> Some b) ops ->
  get_tree (run ops w) b = get_tree w b.
Proof. exact run_other_tree. Qed.
Print Assumptions C07_independent.

Theorem C07_independent_obs : forall ops w b,
  b < length (trees w) -> Forall (fun o => op_tree o <> Some b) ops -> obs_tree (run ops w) b = obs_tree w b.
Proof. exact run_other_obs. Qed.
Print Assumptions C07_independent_obs.

(* after any copy step from tree s into another tree c: source as before, and any later
   history that does not work on s (e.g. any history on the copy) leaves s unchanged,
   any later history that does not work on c (e.g. any history on the source) leaves c unchanged *)
Theorem C07_copy_independent : forall w o s c w1,
  op_reads o = Some s -> s < length (trees w) ->
  c = op_target w o -> c <> s -> w1 = snd (step w o) ->
  get_tree w1 s = get_tree w s /\
  (forall ops, Forall (fun o' => op_tree o' <> Some s) ops -> get_tree (run ops w1) s = get_tree w s) /\
  (forall ops, c < length (trees w1) -> Forall (fun o' => op_tree o' <> Some c) ops ->
               get_tree (run ops w1) c = get_tree w1 c).
Proof. exact copy_independent. Qed.
Print Assumptions C07_copy_independent.

Theorem C07_tree_copy_independent : forall w s c w1,
  step w (OTreeCopy s) = (Ok [c], w1) ->
  c = length (trees w) /\ s < c /\ c < length (trees w1) /\
  get_tree w1 s = get_tree w s /\
  (forall ops, Forall (fun o' => op_tree o' <> Some s) ops -> get_tree (run ops w1) s = get_tree w s) /\
  (forall ops, Forall (fun o' => op_tree o' <> Some c) ops -> get_tree (run ops w1) c = get_tree w1 c).
Proof. exact tree_copy_independent. Qed.
Print Assumptions C07_tree_copy_independent.

(* ---- locality: no operation READS a tree outside its footprint ---- *)
(* [op_footprint o] = the tree o works on + (copy operations) the tree it reads its source from.
   [same_on S w1 w2] : w1 and w2 have the same allocator and the same trees at the indexes in S.
   [sim S x1 x2] : same result, and the worlds afterwards are again [same_on S].
   Whatever the other trees of the world are, an operation does the same thing. *)
Theorem C07_step_local : forall S w1 w2 o ti,
  op_tree o = Some ti -> incl (op_footprint o) S -> same_on S w1 w2 -> sim S (step w1 o) (step w2 o).
Proof. exact step_local. Qed.
Print Assumptions C07_step_local.

Theorem C07_new_tree_local : forall w1 w2 o,
  op_tree o = None -> length (trees w1) = length (trees w2) -> same_on (op_footprint o) w1 w2 ->
  sim [length (trees w1)] (step w1 o) (step w2 o).
Proof. exact new_tree_local. Qed.
Print Assumptions C07_new_tree_local.

(* a history on one tree (e.g. on a copy) yields the same results and the same tree in any two worlds that
   agree on this tree and the allocator - in particular whatever happened to the source in between *)
Theorem C07_history_local : forall ti ops w1 w2,
  Forall (fun o => op_tree o = Some ti /\ (op_reads o = None \/ op_reads o = Some ti)) ops ->
  same_on [ti] w1 w2 ->
  results ops w1 = results ops w2 /\ same_on [ti] (run ops w1) (run ops w2).
Proof. exact history_local. Qed.
Print Assumptions C07_history_local.

(* ---- non-vacuity: a typed source with a clone pair, explicit data_ids and metadata ---- *)
Definition dA : dat := D 1 1 11 true [97%Z].
Definition dB : dat := D 2 2 22 true [98%Z].
Definition dE : dat := D 3 7 33 false [101%Z].
Definition k1 : kind := Some [107; 49]%Z.
Definition k2 : kind := Some [107; 50]%Z.
(* tree 0 (typed):  1:A(k1) [ 2:B(k2, id "X") [ 4:E(k1, id 5) ] ] ; 3:B(k1, id "X") (clone of 2), node 2 has metadata *)
Definition w7 : world :=
  run [ONewTree true None;
       OAdd 0 0 dA None k1 BNone;
       OAdd 0 1 dB (Some (DStr [88%Z])) k2 BNone;
       OAdd 0 0 dB (Some (DStr [88%Z])) k1 BNone;
       OAdd 0 2 dE (Some (DInt 5)) k1 BNone;
       OMeta 0 2 (MSet [109%Z] (Some (A 1%Z)));
       ONewTree true None] empty_world.

Definition dflt : tstate := TS [] [] [] false None.
Definition w7c : world := snd (step w7 (OTreeCopy 0)).
Definition src7 : forest := forest_of (nth 0 (trees w7) dflt).
Definition cp7 : tstate := nth 2 (trees w7c) dflt.

Local Ltac conjs := repeat match goal with |- _ /\ _ => split end.

Example C07_tree_copy_nonvacuous :
    fst (step w7 (OTreeCopy 0)) = Ok [2] /\
    map rid (pre_f src7) = [1; 2; 4; 3] /\
    ids (forest_of cp7) = [5; 6; 7; 8] /\
    map (strip_ids true) (forest_of cp7) = map (strip_ids true) src7 /\
    map i_obj (infos_f (forest_of cp7)) = [1; 2; 3; 2]%Z /\
    map i_did (infos_f (forest_of cp7)) = [DInt 11; DStr [88%Z]; DInt 5; DStr [88%Z]] /\
    map i_kind (infos_f (forest_of cp7)) = [k1; k2; k1; k1] /\
    idx_get (DStr [88%Z]) (idx cp7) = [6; 8] /\ typed cp7 = true /\
    (* the source has metadata, the copy has none, the source is unchanged *)
    map i_meta (infos_f src7) <> map i_meta (infos_f (forest_of cp7)) /\
    get_tree w7c 0 = get_tree w7 0.
Proof. conjs; try (vm_compute; reflexivity). vm_compute. discriminate. Qed.

(* deep copy of branch 1 to the top of tree 1; the top node gets the default kind *)
Definition w7a : world := snd (step w7 (OAddNode 1 0 0 1 None None BNone (Some true))).
Example C07_add_node_nonvacuous :
    fst (step w7 (OAddNode 1 0 0 1 None None BNone (Some true))) = Ok [5] /\
    get_tree w7a 0 = get_tree w7 0 /\
    ids (forest_of (nth 1 (trees w7a) dflt)) = [5; 6; 7] /\
    map i_kind (infos_f (forest_of (nth 1 (trees w7a) dflt))) = [Some [99; 104; 105; 108; 100]%Z; k2; k1] /\
    map i_did (infos_f (forest_of (nth 1 (trees w7a) dflt))) = [DInt 11; DStr [88%Z]; DInt 5].
Proof. conjs; vm_compute; reflexivity. Qed.

(* a history on the copy and a history on the source *)
Definition on_copy : list op :=
  [OMeta 2 6 (MSet [109%Z] (Some (A 2%Z))); ORemove 2 8 false false; OSort 2 5 [] true false;
   OSetData 2 7 (Some dA) None None].
Definition on_src : list op :=
  [OMeta 0 2 (MClear None); ORemove 0 3 false false; OAdd 0 4 dA None k2 BNone].
Example C07_independent_nonvacuous :
    Forall (fun o => op_tree o <> Some 0) on_copy /\ Forall (fun o => op_tree o <> Some 2) on_src /\
    get_tree (run on_copy w7c) 2 <> get_tree w7c 2 /\ get_tree (run on_copy w7c) 0 = get_tree w7 0 /\
    get_tree (run on_src w7c) 0 <> get_tree w7c 0 /\ get_tree (run on_src w7c) 2 = get_tree w7c 2.
Proof.
  split; [repeat constructor; discriminate|]. split; [repeat constructor; discriminate|].
  split; [vm_compute; discriminate|]. split; [vm_compute; reflexivity|].
  split; [vm_compute; discriminate|vm_compute; reflexivity].
Qed.

(* add(tree, before=<node>): the two top-level nodes of tree 0 arrive in source order in front of node 5 *)
Definition w8 : world :=
  run [ONewTree false None; ONewTree false None;
       OAdd 0 0 dA None None BNone; OAdd 0 1 dE (Some (DInt 5)) None BNone; OAdd 0 0 dB None None BNone;
       OAdd 1 0 dE None None BNone; OAdd 1 0 dA (Some (DStr [89%Z])) None BNone] empty_world.
Definition w8a : world := snd (step w8 (OAddTree 1 0 0 (BNode 5) None)).
Example C07_add_tree_nonvacuous :
    fst (step w8 (OAddTree 1 0 0 (BNode 5) None)) = Ok [8] /\
    map rid (forest_of (nth 1 (trees w8) dflt)) = [4; 5] /\
    map rid (forest_of (nth 1 (trees w8a) dflt)) = [4; 6; 8; 5] /\
    ids (forest_of (nth 1 (trees w8a) dflt)) = [4; 6; 7; 8; 5] /\
    map (strip_ids false) (firstn 2 (skipn 1 (forest_of (nth 1 (trees w8a) dflt)))) =
      map (strip_ids false) (forest_of (nth 0 (trees w8) dflt)) /\
    get_tree w8a 0 = get_tree w8 0 /\
    fst (step w8 (OAddTree 1 0 0 (BIdx (-1)) (Some false))) = Ok [7] /\
    map rid (forest_of (nth 1 (trees (snd (step w8 (OAddTree 1 0 0 (BIdx (-1)) (Some false))))) dflt)) = [4; 7; 6; 5].
Proof. conjs; vm_compute; reflexivity. Qed.

(* ---- known finding D47 (pinned by the suite): the statement WITHOUT the exception for the top node ---- *)
(* "a typed copy made by add_child(node) without kind= has the kind of its source at the top, too" *)
Definition C07_full_statement : Prop :=
  forall w ti p sti src e b deep r w' t st s t' x,
    op_add_node w ti p sti src e None b deep = (Ok r, w') ->
    get_tree w ti = Some t -> typed t = true -> get_tree w sti = Some st ->
    get_node src (forest_of st) = Some s ->
    get_tree w' ti = Some t' -> get_node (next w) (forest_of t') = Some x ->
    rkind x = rkind s.

Definition s71 : rt := match get_node 1 src7 with Some s => s | None => T 0 dummy_info [] end.
Definition x75 : rt := match get_node 5 (forest_of (nth 1 (trees w7a) dflt)) with Some s => s | None => T 0 dummy_info [] end.

Theorem C07_full_statement_refuted : ~ C07_full_statement.
Proof.
  intros H.
  assert (X : rkind x75 = rkind s71).
  { apply (H w7 1 0 0 1 None BNone (Some true) [5] w7a (nth 1 (trees w7) dflt) (nth 0 (trees w7) dflt) s71 (nth 1 (trees w7a) dflt) x75);
      vm_compute; reflexivity. }
  vm_compute in X. discriminate.
Qed.
Print Assumptions C07_full_statement_refuted.

(* a deep copy of branch 2 inside tree 0 (below node 3): the source branch is still the same value; the world is well-formed *)
Definition w7s : world := snd (step w7 (OAddNode 0 3 0 2 None None BNone (Some true))).
Example C07_same_tree_nonvacuous :
    fst (step w7 (OAddNode 0 3 0 2 None None BNone (Some true))) = Ok [5] /\
    get_node 2 (forest_of (nth 0 (trees w7s) dflt)) = get_node 2 src7 /\
    ids (forest_of (nth 0 (trees w7s) dflt)) = [1; 2; 4; 3; 5; 6] /\
    wf_world_b w7 = true /\ wf_world_b w7c = true /\ wf_world_b w7s = true.
Proof. conjs; vm_compute; reflexivity. Qed.

(* locality: the history on the copy does the same to the copy whether or not the source's metadata was edited first *)
Definition w7c' : world := run [OMeta 0 2 (MClear None); OMeta 0 1 (MSet [122%Z] (Some (A 9%Z)))] w7c.
Example C07_local_nonvacuous :
    same_on [2] w7c w7c' /\ get_tree w7c 0 <> get_tree w7c' 0 /\
    results on_copy w7c = results on_copy w7c' /\ get_tree (run on_copy w7c) 2 = get_tree (run on_copy w7c') 2 /\
    Forall (fun o => op_tree o = Some 2 /\ (op_reads o = None \/ op_reads o = Some 2)) on_copy.
Proof.
  split; [split; [vm_compute; reflexivity|intros t [<-|[]]; vm_compute; reflexivity]|].
  split; [vm_compute; discriminate|]. split; [vm_compute; reflexivity|]. split; [vm_compute; reflexivity|].
  repeat constructor.
Qed.

(* copy_to(add_self=False, deep) of the children of node 1 (= branch 2 with child 4) below node 3 of the same tree *)
Definition w7k : world := snd (step w7 (OCopyTo 0 1 0 3 false BNone true)).
Example C07_copy_to_same_tree_nonvacuous :
    fst (step w7 (OCopyTo 0 1 0 3 false BNone true)) = Ok [5] /\
    ids (forest_of (nth 0 (trees w7k) dflt)) = [1; 2; 4; 3; 5; 6] /\
    get_node 2 (forest_of (nth 0 (trees w7k) dflt)) = get_node 2 src7 /\
    option_map (strip_ids true) (get_node 5 (forest_of (nth 0 (trees w7k) dflt))) <> option_map (strip_ids true) (get_node 2 src7) /\
    option_map (fun x => map (strip_ids true) (rch x)) (get_node 5 (forest_of (nth 0 (trees w7k) dflt))) =
      option_map (fun x => map (strip_ids true) (rch x)) (get_node 2 src7) /\
    wf_world_b w7k = true.
Proof. conjs; try (vm_compute; reflexivity). vm_compute. discriminate. Qed.

(* a shallow add(tree) of tree 0 below its own node 3, in front of nothing / at index -1: copies of the top nodes 1 and 3 *)
Definition w7t : world := snd (step w7 (OAddTree 0 3 0 BNone (Some false))).
Example C07_add_tree_same_tree_nonvacuous :
    fst (step w7 (OAddTree 0 3 0 BNone (Some false))) = Ok [] /\
    ids (forest_of (nth 0 (trees w7t) dflt)) = [1; 2; 4; 3; 5; 6] /\
    option_map (fun x => map (fun c => i_obj (rinfo c)) (rch x)) (get_node 3 (forest_of (nth 0 (trees w7t) dflt))) = Some [1; 2]%Z /\
    (exists e, fst (step w7 (OAddTree 0 3 0 BNone None)) = Err e) /\
    wf_world_b w7t = true.
Proof. conjs; try (vm_compute; reflexivity). eexists. vm_compute. reflexivity. Qed.

(* ---- a copy inside the tree of its source IS A CLONE of it (the library's clone semantics, not a defect) ---- *)
(* w7s: branch 2 of tree 0 deep-copied below node 3 of the same tree; the copy's top node is 5 (same data_id as 2).
   remove(with_clones=True) on the COPY removes the SOURCE node 2 as well; set_data(with_clones=True) on the copy
   changes the source's data object.  The operations of [local_op] do not: C07_same_tree_frame. *)
Definition f7s : forest := forest_of (nth 0 (trees w7s) dflt).
Definition b2 : rt := match get_node 2 f7s with Some s => s | None => T 0 dummy_info [] end.
Definition b5 : rt := match get_node 5 f7s with Some s => s | None => T 0 dummy_info [] end.
Example C07_same_tree_copy_is_a_clone :
    rdid b5 = rdid b2 /\ i_obj (rinfo b5) = i_obj (rinfo b2) /\
    fst (step w7s (ORemove 0 5 false true)) = Ok [] /\
    get_node 2 f7s <> None /\
    get_node 2 (forest_of (nth 0 (trees (snd (step w7s (ORemove 0 5 false true)))) dflt)) = None /\
    fst (step w7s (OSetData 0 5 (Some dA) (Some (DStr [88%Z])) (Some true))) = Ok [] /\
    option_map (fun x => i_obj (rinfo x))
      (get_node 2 (forest_of (nth 0 (trees (snd (step w7s (OSetData 0 5 (Some dA) (Some (DStr [88%Z])) (Some true))))) dflt))) = Some 1%Z /\
    i_obj (rinfo b2) = 2%Z.
Proof. conjs; try (vm_compute; reflexivity). vm_compute. discriminate. Qed.

(* ... while operations that do not name clones, on the copy (node 5 / its child 6), leave the source branch identical,
   and on the source (node 2 / 4) leave the copy identical: the hypotheses of C07_same_tree_frame are satisfiable *)
Example C07_same_tree_frame_nonvacuous :
    In b2 (pre_f f7s) /\ In b5 (pre_f f7s) /\ NoDup (ids f7s) /\
    (~ In 5 (ids_t b2) /\ ~ In 6 (ids_t b2) /\ ~ In 2 (ids_t b5) /\ ~ In 4 (ids_t b5)) /\
    (let w' := run [OMeta 0 5 (MSet [109%Z] (Some (A 3%Z))); ORemove 0 6 false false; OAdd 0 5 dA None k1 BTrue;
                    OSetData 0 5 (Some dA) None (Some false)] w7s in
     get_node 2 (forest_of (nth 0 (trees w') dflt)) = Some b2 /\ get_node 5 (forest_of (nth 0 (trees w') dflt)) <> Some b5) /\
    (let w' := run [OMeta 0 2 (MClear None); ORemoveChildren 0 2; OSort 0 2 [] true false] w7s in
     get_node 5 (forest_of (nth 0 (trees w') dflt)) = Some b5 /\ get_node 2 (forest_of (nth 0 (trees w') dflt)) <> Some b2).
Proof.
  split; [vm_compute; tauto|]. split; [vm_compute; tauto|].
  split; [apply (nodupb_NoDup Nat.eqb Nat.eqb_eq); vm_compute; reflexivity|].
  split; [vm_compute; intuition discriminate|].
  split; (split; [vm_compute; reflexivity|vm_compute; discriminate]).
Qed.

(* Node.copy(add_self) and a cross-tree copy_to(add_self=False) *)
Definition b2' : rt := match get_node 2 src7 with Some s => s | None => T 0 dummy_info [] end.
Definition w7n : world := snd (step w7 (ONodeCopy 0 1 true)).
Definition w7m : world := snd (step w7 (OCopyTo 0 1 1 0 false BNone true)).
Example C07_node_copy_nonvacuous :
    fst (step w7 (ONodeCopy 0 1 true)) = Ok [2] /\ ids (forest_of (nth 2 (trees w7n) dflt)) = [5; 6; 7] /\
    map i_kind (infos_f (forest_of (nth 2 (trees w7n) dflt))) = [Some [99; 104; 105; 108; 100]%Z; k2; k1] /\
    fst (step w7 (ONodeCopy 0 1 false)) = Ok [2] /\
    map i_kind (infos_f (forest_of (nth 2 (trees (snd (step w7 (ONodeCopy 0 1 false)))) dflt))) = [k2; k1] /\
    fst (step w7 (OCopyTo 0 1 1 0 false BNone true)) = Ok [5] /\
    ids (forest_of (nth 1 (trees w7m) dflt)) = [5; 6] /\ get_tree w7m 0 = get_tree w7 0 /\
    src_ok src7 (forest_of (nth 0 (trees w7k) dflt)) 3 2.
Proof.
  conjs; try (vm_compute; reflexivity).
  exists b2', b2'. unfold b2'. repeat split; try (vm_compute; reflexivity).
Qed.
