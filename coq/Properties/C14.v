(* C14 — the nested list-of-dicts form round-trips and mirrors the tree.
   Statements only; proofs are in theories/Forest/DictListProofs.v. *)
From Coq Require Import List ZArith Bool.
From NT Require Import Sx Rose DictList CaseC14.
Import ListNotations.

Theorem C14_empty : forall sm, to_dict_list sm [] = [].
Proof. reflexivity. Qed.
Print Assumptions C14_empty.
