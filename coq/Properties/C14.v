(* C14 — the nested list-of-dicts form round-trips and mirrors the tree.
   Statements only; proofs are in theories/Forest/DictListProofs.v and
   theories/Cases/CaseC14Facts.v.

   Model (theories/Forest/DictList.v): [to_dict sm t], [to_dict_list sm f],
   [from_dict dd calc next obj], [tree_from_dict dd next obj] over JSON-like
   values [jv].  [sm] is the serialisation mapper (a function of the node's
   payload and of the dict built so far), [dd] what the deserialisation step
   makes of item["data"].  Specifications (DictListProofs.v): [mirrors enc t j]
   (relational: the dict [j] has the entries the property asks for and its
   "children" mirror the children), [iso t t'] (same tree up to node identity,
   kind and meta), [sibuniq_f] (C03: no two siblings with one data_id).
   [sm_ok enc sm]: the serialisation mapper sets "data" to [enc] of the node,
   leaves "data_id" alone and does not invent "children" or "node_id" entries
   (it may add any other entry).  [i_hash = -1] stands for unhashable data. *)
From Coq Require Import List ZArith Bool.
From NT Require Import Sx Rose DictList DictListProofs CaseC14 CaseC14Facts.
From NT Require MiscMapper MiscMapperProofs.   (* part MAPPER, imported at the end of this file *)
From NT Require MiscRepr MiscCommon MiscCommonProofs.   (* part COMMONMISC, imported at the end of this file *)
From NTGen Require Import Generated.
Import ListNotations.

(* ---- to_dict_list mirrors the tree ------------------------------------ *)

(* One dict per node, nested like the tree and in child order; "data" holds the
   mapper's value [enc i], "data_id" is present exactly when the node's id is
   not hash(data) ([custom_id]: data unhashable – D30b –, or id <> hash) and then holds it, "children" is present exactly when the
   node has children.  For every serialisation mapper that sets "data" to
   [enc] of the node, leaves "data_id" alone and does not invent "children". *)
Theorem C14_mirror : forall (enc : info -> jv) (sm : smapper),
  sm_ok enc sm -> forall f : forest, Forall2 (mirrors enc) f (to_dict_list sm f).
Proof. exact to_dict_list_mirrors. Qed.
Print Assumptions C14_mirror.

(* without a mapper "data" is the node's name (str(data)) *)
Theorem C14_mirror_plain : forall f : forest,
  Forall2 (mirrors (fun i => JStr (i_name i))) f (to_dict_list sm_none f).
Proof. exact (to_dict_list_mirrors enc_name sm_none sm_none_ok). Qed.
Print Assumptions C14_mirror_plain.

(* ... and the dict has no other entries, in this order ([opt_id]: the entry the
   property asks for – the id when data is unhashable or the id differs from
   hash(data), nothing otherwise) *)
Theorem C14_plain_dict_exact : forall id i ch,
  to_dict sm_none (T id i ch) =
  JDict ([(k_data, JStr (i_name i))]
         ++ (match opt_id i with Some v => [(k_data_id, v)] | None => [] end)
         ++ (match ch with [] => [] | _ => [(k_children, JList (map (to_dict sm_none) ch))] end)).
Proof. exact to_dict_plain_exact. Qed.
Print Assumptions C14_plain_dict_exact.

(* Node.to_dict of any node mirrors that node's branch *)
Theorem C14_node_mirror : forall enc sm, sm_ok enc sm -> forall t : rt, mirrors enc t (to_dict sm t).
Proof. exact to_dict_mirrors. Qed.
Print Assumptions C14_node_mirror.

(* flattened along "children", the dicts are the nodes in pre-order: the
   ("data", "data_id") entries read off the dict forest are those of the
   pre-order node list *)
Theorem C14_dicts_in_preorder : forall enc sm, sm_ok enc sm -> forall f : forest,
  map head_of (dicts_of (to_dict_list sm f)) =
  map (fun x => (Some (enc (rinfo x)), opt_id (rinfo x))) (pre_f f).
Proof. exact dicts_pre. Qed.
Print Assumptions C14_dicts_in_preorder.

(* a tree without nodes (fresh, cleared, or emptied by remove()) gives [] — D30 *)
Theorem C14_empty : forall sm, to_dict_list sm [] = [].
Proof. reflexivity. Qed.
Print Assumptions C14_empty.

(* the mappers of the harness are admissible; the one dropping data_id is not *)
Theorem C14_harness_mappers : forall tbl,
  sm_ok enc_name (sm_of (SMextra tbl)) /\
  sm_ok (enc_of tbl) (sm_of (SMset tbl)) /\
  sm_ok (fun i => JList [JStr (i_name i); enc_of tbl i]) (sm_of (SMwrap tbl)) /\
  sm_ok (enc_of tbl) (sm_of (SMnew tbl true)) /\
  (forall enc, ~ sm_ok enc (sm_of (SMnew tbl false))) /\
  sm_kids (sm_of (SMguid tbl)).
Proof. exact (fun tbl => conj (sm_extra_ok tbl) (conj (sm_set_ok tbl) (conj (sm_wrap_ok tbl) (conj (sm_new_keep_ok tbl) (conj (sm_new_drop_not_ok tbl) (sm_guid_kids tbl)))))). Qed.
Print Assumptions C14_harness_mappers.

(* the keys written by Node.to_dict and read by Node.from_dict in /repo (lifted
   from the source text by gen_facts.py on every run) are the keys of the model,
   the source's data_id test is [self._data_id == hash(self._data)] guarded
   against TypeError (shape 2; shape 1 is the unguarded test of D30b), and
   Node.to_dict is the statement sequence the model mirrors (dict literal;
   guarded default test; id entry; call_mapper; children added after the
   mapper; return);
   from_dict's optional "node_id" entry is never written by to_dict *)
Theorem C14_source_keys :
  TO_DICT_KEYS = [k_data; k_data_id; k_children] /\
  FROM_DICT_KEYS = [k_data; k_data_id; k_node_id; k_children] /\
  TO_DICT_ID_TEST = 2%Z /\
  TO_DICT_SKELETON = [0; 5; 1; 2; 3; 4]%Z.
Proof. exact source_keys_ok. Qed.
Print Assumptions C14_source_keys.

(* ---- round trip ------------------------------------------------------- *)

(* from_dict(to_dict_list(t)) succeeds and rebuilds the same tree up to node
   identity: for every tree with unique sibling data_ids (the C03 invariant),
   every serialisation mapper that does not invent a "children" entry and every
   deserialisation step that is its inverse on the data objects of the tree.
   [inverse_on sm dd i]: from the dict to_dict writes for a node with payload i
   – whatever its "children" entry – the step builds an object with the same
   ==-class, hash, str-ness and printed form, and LEAVES THE ITEM with exactly
   the "data_id" entry the node needs (its id when custom, none otherwise) and
   no "node_id".  The step may read any entry and may change the item: a pair
   that moves the id to another key ("guid") and restores item["data_id"] in the
   deserialize mapper is an inverse pair (Node.from_dict reads "data_id" after
   the mapper ran: "mapper may add item['data_id']").  The rebuilt nodes are
   allocated in pre-order. *)
Theorem C14_roundtrip : forall (sm : smapper) (dd : dmapper) (next : nat) (f : forest),
  sm_kids sm -> sibuniq_f f -> Forall (allinfo (inverse_on sm dd)) f ->
  exists f', tree_from_dict dd next (to_dict_list sm f) = inl f' /\
             Forall2 iso f f' /\ ids f' = seq (S next) (size_f f).
Proof. exact roundtrip. Qed.
Print Assumptions C14_roundtrip.

(* the same for the admissible mappers of the mirror theorems ([sm_ok]: "data_id"
   left where to_dict put it), where a deserialisation step that only reads the
   item is inverse as soon as it rebuilds indistinguishable data *)
Theorem C14_roundtrip_ok : forall (enc : info -> jv) (sm : smapper) (dd : dmapper) (next : nat) (f : forest),
  sm_ok enc sm -> sibuniq_f f -> Forall (allinfo (inverse_on sm dd)) f ->
  exists f', tree_from_dict dd next (to_dict_list sm f) = inl f' /\
             Forall2 iso f f' /\ ids f' = seq (S next) (size_f f).
Proof. exact roundtrip_ok. Qed.
Print Assumptions C14_roundtrip_ok.

Theorem C14_inverse_on_readonly : forall (enc : info -> jv) (sm : smapper) (f : jdict -> res info) (i : info),
  sm_ok enc sm ->
  (forall D, own_entries (head_dict sm i) D -> exists i', f D = inl i' /\ same_data i i') ->
  inverse_on sm (dd_pure f) i.
Proof. exact inverse_on_pure. Qed.
Print Assumptions C14_inverse_on_readonly.

(* string data without mapper: [raw] is Python's reading of a JSON value; the
   only thing asked of it is that the str rebuilt from a node's characters is
   equal (==, hash) to the node's str *)
Theorem C14_roundtrip_strings : forall (raw : jv -> res info) (next : nat) (f : forest),
  sibuniq_f f ->
  (forall t, In t (pre_f f) -> exists i', raw (JStr (i_name (rinfo t))) = inl i' /\ same_data (rinfo t) i') ->
  exists f', tree_from_dict (dd_raw raw) next (to_dict_list sm_none f) = inl f' /\
             Forall2 iso f f' /\ ids f' = seq (S next) (size_f f).
Proof. exact roundtrip_strings. Qed.
Print Assumptions C14_roundtrip_strings.

(* what "the same tree" gives: same shape and child order (skeleton), the same
   data_id at every pre-order position (explicit ids carried, default ids
   recomputed equal), indistinguishable data at every position, and the same
   clone groups: two positions share a data_id after iff they did before *)
Theorem C14_iso_consequences : forall f f' : forest, Forall2 iso f f' ->
  map skel f' = map skel f /\
  map rdid (pre_f f') = map rdid (pre_f f) /\
  Forall2 node_agrees (pre_f f) (pre_f f') /\
  (forall p q x y x' y',
     nth_error (pre_f f) p = Some x -> nth_error (pre_f f) q = Some y ->
     nth_error (pre_f f') p = Some x' -> nth_error (pre_f f') q = Some y' ->
     (rdid x = rdid y <-> rdid x' = rdid y')).
Proof. exact iso_consequences. Qed.
Print Assumptions C14_iso_consequences.

(* from_dict on ANY input (hand-written, malformed, any mapper, any
   calc_data_id of the target tree): if it returns a tree, no two siblings in
   it share a data_id *)
Theorem C14_from_dict_safe : forall (dd : dmapper) (calc : info -> res did) (next : nat) (obj : list jv) (f : forest),
  from_dict dd calc next obj = inl f -> sibuniq_f f.
Proof. exact from_dict_safe. Qed.
Print Assumptions C14_from_dict_safe.

(* from_dict on ANY input, when it returns a tree: one node per item dict, nested
   and ordered like the items; each node's data is what the deserialisation step
   makes of the item's "data", its data_id the item's "data_id" entry or, without
   one, calc_data_id of that data (relational spec [built]) *)
Theorem C14_from_dict_mirrors_input : forall (dd : dmapper) (calc : info -> res did) (next : nat) (obj : list jv) (f : forest),
  from_dict dd calc next obj = inl f -> Forall2 (built dd calc) (map parse obj) f.
Proof. exact from_dict_built. Qed.
Print Assumptions C14_from_dict_mirrors_input.

(* ... and the explicit node ids it registered ([nids]: the "node_id" entries of
   the items, int()-converted, in pre-order; by C14_from_dict_mirrors_input
   these are the node ids of the built nodes) are pairwise different and not 0 *)
Theorem C14_from_dict_node_ids : forall (dd : dmapper) (calc : info -> res did) (next : nat) (obj : list jv) (f : forest),
  from_dict dd calc next obj = inl f ->
  NoDup (flat_map (nids dd) (map parse obj)) /\ ~ In 0%Z (flat_map (nids dd) (map parse obj)).
Proof. exact from_dict_node_ids. Qed.
Print Assumptions C14_from_dict_node_ids.

(* the other direction: a canonical dict list (per item exactly what to_dict
   writes: "data" a string that reads back under that name, "data_id" only when
   not the default, "children" only when non-empty) is reproduced exactly by
   to_dict_list(from_dict(obj)) *)
Theorem C14_canonical_roundtrip : forall (dd : dmapper) (next : nat) (obj : list jv) (f : forest),
  Forall (canon dd) obj -> from_dict dd default_did next obj = inl f -> to_dict_list sm_none f = obj.
Proof. exact canonical_roundtrip. Qed.
Print Assumptions C14_canonical_roundtrip.

(* Node.from_dict on a childless node of an existing tree (any calc_data_id
   hook, any input): a tree with unique sibling ids stays one *)
Theorem C14_node_from_dict_safe : forall dd calc next (f : forest) target obj f',
  sibuniq_f f -> node_from_dict dd calc next f target obj = inl f' -> sibuniq_f f'.
Proof. exact node_from_dict_safe. Qed.
Print Assumptions C14_node_from_dict_safe.

(* which inputs are refused: for inputs whose items are all well formed (data
   readable, data_id entry usable), from_dict succeeds iff no two sibling items
   have one effective id (the data_id entry or, without one, calc_data_id of the
   data), and the only error it can raise is UniqueConstraintError *)
Theorem C14_from_dict_refusal : forall (dd : dmapper) (calc : info -> res did) (next : nat) (obj : list jv),
  Forall (wf_pt dd calc) (map parse obj) ->
  ((exists f, from_dict dd calc next obj = inl f) <-> uniq_items dd calc obj) /\
  (forall e, from_dict dd calc next obj = inr e -> e = E_UNIQUE).
Proof. exact from_dict_refusal. Qed.
Print Assumptions C14_from_dict_refusal.

(* ---- non-vacuity and necessity of the hypotheses ----------------------- *)

(* strings, clones, falsy explicit ids (0 and ""), an explicit id equal to the
   default: hypotheses hold, dump and rebuilt tree computed *)
Example C14_ex_strings_hyps : sibuniq_f ex_f /\
  (forall t, In t (pre_f ex_f) -> exists i', ex_raw (JStr (i_name (rinfo t))) = inl i' /\ same_data (rinfo t) i').
Proof. exact (conj ex_sibuniq ex_strings). Qed.

Example C14_ex_dump :
  to_dict_list sm_none ex_f =
  [ JDict [(k_data, JStr [97%Z]); (k_data_id, JInt 0);
           (k_children, JList [JDict [(k_data, JStr [98%Z]); (k_data_id, JStr [])]; JDict [(k_data, JStr [97%Z])]])];
    JDict [(k_data, JStr [98%Z]); (k_children, JList [JDict [(k_data, JStr [97%Z]); (k_data_id, JInt 0)]])] ].
Proof. exact ex_dump. Qed.

Example C14_ex_rebuilt :
  exists f', tree_from_dict (dd_raw ex_raw) 5 (to_dict_list sm_none ex_f) = inl f' /\ ids f' = [6; 7; 8; 9; 10]%nat.
Proof. eexists. split; [exact ex_rebuilt|reflexivity]. Qed.

Example C14_ex_canonical : Forall (canon (dd_raw ex_raw)) (to_dict_list sm_none ex_f).
Proof. exact ex_canon. Qed.

(* objects with an inverse mapper pair (value-equal objects, an identity-hashed
   object, a clone, an explicit id) *)
Example C14_ex_objects_hyps :
  sm_ok (enc_of ex_tbl) (sm_of (SMset ex_tbl)) /\ sibuniq_f ex_g /\ Forall (allinfo (inverse_on (sm_of (SMset ex_tbl)) ex_dd)) ex_g.
Proof. exact (conj (sm_set_ok ex_tbl) (conj ex_g_sibuniq ex_g_inverse)). Qed.

(* a pair that moves the id to another key and back (serialize: data["g"] =
   data.pop("data_id"); deserialize: item["data_id"] = item.pop("g")) is an
   inverse pair; the explicit id and the clone come back *)
Example C14_ex_guid_pair :
  sm_kids (sm_of (SMguid ex_tbl)) /\ Forall (allinfo (inverse_on (sm_of (SMguid ex_tbl)) ex_dd_guid)) ex_g /\
  exists f', tree_from_dict ex_dd_guid 4 (to_dict_list (sm_of (SMguid ex_tbl)) ex_g) = inl f' /\
             map rdid (pre_f f') = map rdid (pre_f ex_g).
Proof.
  refine (conj (sm_guid_kids ex_tbl) (conj ex_guid_inverse _)).
  eexists. split; [exact ex_guid_rebuilt|reflexivity].
Qed.

(* without the inverse-pair hypothesis, or without sibling uniqueness, the round trip fails *)
Example C14_roundtrip_needs_inverse :
  tree_from_dict (dd_raw (fun _ => inl (I (-1) 0 0 true [] (DInt 0) None []))) 0
                 (to_dict_list sm_none [T 1 (ex_a (DInt 11)) []; T 2 (ex_b (DInt 22)) []]) = inr E_UNIQUE.
Proof. exact ex_not_inverse. Qed.

Example C14_dropping_mapper_loses_ids :
  tree_from_dict (dd_raw ex_raw) 0 (to_dict_list (sm_of (SMnew [(1%Z, JStr [97%Z])] false)) [T 1 (ex_a (DInt 0)) []]) =
  inl [T 1 (I (-1) 1 11 true [97%Z] (DInt 11) None []) []].
Proof. exact ex_drop_loses_ids. Qed.

Example C14_ex_node_ids :
  tree_from_dict (dd_raw ex_raw) 0
    [JDict [(k_data, JStr [97%Z]); (k_node_id, JInt 5); (k_children, JList [JDict [(k_data, JStr [98%Z]); (k_node_id, JStr [49%Z; 50%Z])]])]] =
  inl [T 1 (I (-1) 1 11 true [97%Z] (DInt 11) None [(k_node_id, A 5)])
         [T 2 (I (-1) 2 22 true [98%Z] (DInt 22) None [(k_node_id, A 12)]) []]] /\
  tree_from_dict (dd_raw ex_raw) 0
    [JDict [(k_data, JStr [97%Z]); (k_node_id, JInt 5)]; JDict [(k_data, JStr [98%Z]); (k_node_id, JInt 5); (k_data_id, JList [])]] =
  inr E_ASSERT.
Proof. exact ex_node_ids. Qed.

Example C14_roundtrip_needs_sibuniq :
  tree_from_dict (dd_raw ex_raw) 0 (to_dict_list sm_none [T 1 (ex_a (DInt 11)) []; T 2 (ex_a (DInt 11)) []]) = inr E_UNIQUE.
Proof. exact ex_not_unique. Qed.

(* the generated facts this property uses were lifted from the current source *)
Theorem C14_generated_facts_present : GEN_DICTLIST_OK = true.
Proof. reflexivity. Qed.
Print Assumptions C14_generated_facts_present.

(* ====================================================================================== *)
(* ---- JSON transport, strings without a data premise, C03 bridge (audit F1-F3) ---- *)
From NT Require DictJson CaseC14Json.
From NT Require WF.
Import DictJson CaseC14Json.

(* "also after a JSON dump/load of the structure".  [json_rt] is what
   json.loads(json.dumps v) is on the value kinds of the AST: a tuple comes back
   as a list, everything else unchanged (the correspondence applies it between
   to_dict_list and from_dict, and the harness compares the real json round trip
   with it on every case).  The structure to_dict_list builds is a fixed point of
   it for every serialisation mapper that writes JSON-able values ([sm_json]:
   tuple-free in, tuple-free out), in particular without a mapper *)
Theorem C14_json_transport : forall sm : smapper, sm_json sm ->
  forall f : forest, map json_rt (to_dict_list sm f) = to_dict_list sm f.
Proof. exact to_dict_list_json. Qed.
Print Assumptions C14_json_transport.

Theorem C14_json_transport_plain : forall f : forest, map json_rt (to_dict_list sm_none f) = to_dict_list sm_none f.
Proof. exact (to_dict_list_json sm_none sm_none_json). Qed.
Print Assumptions C14_json_transport_plain.

(* the transport itself: identity exactly on tuple-free values, never yields a tuple, idempotent *)
Theorem C14_json_rt_spec : forall v : jv,
  (tuple_free v = true -> json_rt v = v) /\ tuple_free (json_rt v) = true /\ json_rt (json_rt v) = json_rt v.
Proof. exact (fun v => conj (json_rt_fixed v) (conj (json_rt_tuple_free v) (json_rt_idem v))). Qed.
Print Assumptions C14_json_rt_spec.

(* the round trip THROUGH the transport *)
Theorem C14_roundtrip_after_json : forall (sm : smapper) (dd : dmapper) (next : nat) (f : forest),
  sm_json sm -> sm_kids sm -> sibuniq_f f -> Forall (allinfo (inverse_on sm dd)) f ->
  exists f', tree_from_dict dd next (map json_rt (to_dict_list sm f)) = inl f' /\
             Forall2 iso f f' /\ ids f' = seq (S next) (size_f f).
Proof. exact roundtrip_after_json. Qed.
Print Assumptions C14_roundtrip_after_json.

(* string data, no mapper, through JSON, and NO premise about the rebuilt data:
   Python's str equality and hash are functions of the characters ([eqc_of],
   [hash_of], arbitrary); the payloads of the tree are str payloads
   ([str_payload]: is a str, hash / ==-class are those of its characters);
   [raw_str] is Python's reading of a JSON string.  Then the data is reproduced
   ([node_agrees] at every pre-order position: same ==-class, hash, str-ness,
   characters, data_id), not assumed *)
Theorem C14_roundtrip_strings_no_premise : forall (hash_of eqc_of : text -> Z) (next : nat) (f : forest),
  sibuniq_f f -> (forall t, In t (pre_f f) -> str_payload hash_of eqc_of (rinfo t)) ->
  exists f', tree_from_dict (dd_raw (raw_str hash_of eqc_of)) next (map json_rt (to_dict_list sm_none f)) = inl f' /\
             Forall2 iso f f' /\ ids f' = seq (S next) (size_f f) /\
             Forall2 node_agrees (pre_f f) (pre_f f').
Proof. exact roundtrip_strings_wf. Qed.
Print Assumptions C14_roundtrip_strings_no_premise.

Example C14_ex_strings_no_premise_hyps :
  sibuniq_f ex_f /\ (forall t, In t (pre_f ex_f) -> str_payload ex_hash ex_eqc (rinfo t)).
Proof. exact (conj ex_sibuniq ex_str_payloads). Qed.

(* outside the domain, named: a tuple-valued data_id (possible through a
   calc_data_id hook; DataIdType is str|int) is not JSON-stable – what comes back
   holds a list and from_dict refuses it with TypeError; and a mapper that writes
   a tuple is not [sm_json] and its dump is changed by the transport *)
Example C14_ex_tuple_data_id :
  tuple_free ex_tuple_item = false /\
  json_rt ex_tuple_item = JDict [(k_data, JStr [97%Z]); (k_data_id, JList [JStr [107%Z]; JStr [97%Z]])] /\
  json_rt ex_tuple_item <> ex_tuple_item /\
  tree_from_dict (dd_raw ex_raw) 0 [json_rt ex_tuple_item] = inr E_TYPE.
Proof. exact ex_tuple_id. Qed.

Example C14_ex_tuple_mapper : forall tbl, ~ sm_json (sm_of (SMtuple tbl)).
Proof. exact sm_tuple_not_json. Qed.

(* the inverse-pair hypothesis asked only for the dicts that occur
   ([inverse_on_c]: the node's head dict, with or without a "children" entry
   appended) – weaker than [inverse_on], hence a stronger round-trip theorem; the
   table-driven decoders the correspondence runs satisfy it (Example below),
   which they cannot do for [inverse_on] (arbitrary association lists) *)
Theorem C14_roundtrip_occurring_dicts : forall (sm : smapper) (dd : dmapper) (next : nat) (f : forest),
  sm_json sm -> sm_kids sm -> sibuniq_f f -> Forall (allinfo (inverse_on_c sm dd)) f ->
  exists f', tree_from_dict dd next (map json_rt (to_dict_list sm f)) = inl f' /\
             Forall2 iso f f' /\ ids f' = seq (S next) (size_f f).
Proof. exact roundtrip_c. Qed.
Print Assumptions C14_roundtrip_occurring_dicts.

Theorem C14_inverse_on_implies_occurring : forall sm dd i, inverse_on sm dd i -> inverse_on_c sm dd i.
Proof. exact inverse_on_weaken. Qed.
Print Assumptions C14_inverse_on_implies_occurring.

(* the decoder [run14] executes for the mapper kind "extra" (CaseC14.dd_for /
   dd_head over its table), on the 4-node example tree with a clone and an
   explicit id: hypotheses hold, so the theorem covers that correspondence run *)
Example C14_ex_table_decoder :
  sm_json ex_sm_extra /\ sm_kids ex_sm_extra /\
  Forall (allinfo (inverse_on_c ex_sm_extra (dd_for (SMextra ex_tbl) ex_dt))) ex_g /\
  exists f', tree_from_dict (dd_for (SMextra ex_tbl) ex_dt) 4 (map json_rt (to_dict_list ex_sm_extra ex_g)) = inl f' /\
             Forall2 iso ex_g f'.
Proof.
  exact (conj ex_sm_extra_json (conj ex_sm_extra_kids (conj ex_table_decoder_inverse ex_table_decoder_roundtrip))).
Qed.

(* the hypothesis of the round-trip theorems is the C03 invariant predicate of
   the mutation machine (preserved by every operation: C01/C03) *)
Theorem C14_sibuniq_is_C03_invariant : forall f : forest, sibuniq_f f <-> WF.SU f.
Proof. exact sibuniq_f_SU. Qed.
Print Assumptions C14_sibuniq_is_C03_invariant.

(* Glue C14 <-> C04/C01 (theories/Glue/GlueFromDict.v).  from_dict is modelled twice: here
   (Forest/DictList.v: JSON items read through a deserialisation step [dd], identities assigned by
   [renum_f] afterwards) and in the mutation machine (Mut/Machine.v [op_from_dict] / [OTreeFromDict]:
   a sequence of add_child calls on the tree state, with the handlers of fix D48; C04_from_dict
   characterises its result).  [enc dd calc cs it p]: the decoded JSON item p says what the machine item
   it says - same data object, same explicit data_id or none, no explicit node_id, calc_data_id answers
   alike (a raising callback is class 8 in both), same children.  Then both models build the SAME
   forest, identities included ([next] = allocator - 1), and refuse the SAME inputs with the same error
   class; after a refusal the machine's trees are unchanged.  Plain trees (typed = false: the dict-list
   model has no kinds). *)
From NT Require Machine WF GlueFromDict.

Theorem C14_agrees_with_mutation_model_node_from_dict : forall dd dcalc w ti p items obj t m,
  WF.WFw w -> Machine.get_tree w ti = Some t -> Machine.typed t = false -> Machine.next w = S m ->
  In p (ids (Machine.forest_of t)) ->
  Forall2 (GlueFromDict.enc dd dcalc (Machine.calc t)) items (map parse obj) ->
  match Machine.op_from_dict w ti p items, node_from_dict dd dcalc m (Machine.forest_of t) p obj with
  | (Machine.Ok _, w'), inl f' => exists t', Machine.get_tree w' ti = Some t' /\ Machine.forest_of t' = f' /\
                                             forall tj, tj <> ti -> Machine.get_tree w' tj = Machine.get_tree w tj
  | (Machine.Err e, w'), inr ez => ez = Z.of_nat e /\ Machine.trees w' = Machine.trees w
  | _, _ => False
  end.
Proof. exact GlueFromDict.glue_node_from_dict. Qed.
Print Assumptions C14_agrees_with_mutation_model_node_from_dict.

Theorem C14_agrees_with_mutation_model_tree_from_dict : forall dd w items obj m, WF.WFw w -> Machine.next w = S m ->
  Forall2 (GlueFromDict.enc dd default_did None) items (map parse obj) ->
  match Machine.op_tree_from_dict w items, tree_from_dict dd m obj with
  | (Machine.Ok r, w'), inl f' => r = [length (Machine.trees w)] /\
        exists t', Machine.get_tree w' (length (Machine.trees w)) = Some t' /\ Machine.forest_of t' = f' /\
                   forall tj, (tj < length (Machine.trees w))%nat -> Machine.get_tree w' tj = Machine.get_tree w tj
  | (Machine.Err e, w'), inr ez => ez = Z.of_nat e /\ Machine.trees w' = Machine.trees w
  | _, _ => False
  end.
Proof. exact GlueFromDict.glue_tree_from_dict. Qed.
Print Assumptions C14_agrees_with_mutation_model_tree_from_dict.

(* non-vacuity: plain int data objects, "data": z, one explicit data_id, one duplicate sibling *)
Definition c14g_raw (v : jv) : res info :=
  match v with JInt z => inl (I z z z false [z] (DInt 0) None []) | _ => inr E_TYPE end.
Definition c14g_dat (z : Z) : Machine.dat := Machine.D z z z false [z].
Definition c14g_item (z : Z) (e : option jv) (kids : list jv) : jv :=
  JDict (([100; 97; 116; 97], JInt z) :: (match e with Some v => [(k_data_id, v)] | None => [] end) ++ [(k_children, JList kids)]).
Example C14_agrees_with_mutation_model_nonvacuous :
  let obj := [c14g_item 5 None [c14g_item 6 (Some (JStr [120%Z])) []]; c14g_item 7 None []] in
  let items := [Machine.DI (c14g_dat 5) None [Machine.DI (c14g_dat 6) (Some (DStr [120%Z])) []]; Machine.DI (c14g_dat 7) None []] in
  let bad := [c14g_item 5 None []; c14g_item 5 None []] in
  let bad_items := [Machine.DI (c14g_dat 5) None []; Machine.DI (c14g_dat 5) None []] in
  Forall2 (GlueFromDict.enc (dd_raw c14g_raw) default_did None) items (map parse obj) /\
  Forall2 (GlueFromDict.enc (dd_raw c14g_raw) default_did None) bad_items (map parse bad) /\
  tree_from_dict (dd_raw c14g_raw) 0%nat obj =
    inl (Machine.forest_of (nth 0%nat (Machine.trees (snd (Machine.op_tree_from_dict Machine.empty_world items))) (Machine.TS [] [] [] false None))) /\
  tree_from_dict (dd_raw c14g_raw) 0%nat bad = inr E_UNIQUE /\
  fst (Machine.op_tree_from_dict Machine.empty_world bad_items) = Machine.Err Machine.EUnique.
Proof.
  cbv zeta. split; [|split; [|split; [|split]]]; try (vm_compute; reflexivity).
  - repeat (first [apply Forall2_nil | apply Forall2_cons | eapply GlueFromDict.enc_item; [vm_compute; reflexivity|repeat split|vm_compute; reflexivity|vm_compute; reflexivity|vm_compute; reflexivity|]]).
  - repeat (first [apply Forall2_nil | apply Forall2_cons | eapply GlueFromDict.enc_item; [vm_compute; reflexivity|repeat split|vm_compute; reflexivity|vm_compute; reflexivity|vm_compute; reflexivity|]]).
Qed.

(* ==== PART MAPPER: common.call_mapper (model theories/Forest/MiscMapper.v, correspondence Cases/CaseMiscMapper.v,
   harness parts_misc.MAPPER).  A callback is a script [CB body ret]: mutations of the dict it is handed, then how it
   ends ([RNone] returns None, [RSame] returns the dict itself, [RVal v] another object of value v, [RRaise c]).
   [OData d] = the caller holds the data dict object itself (content d), [OVal v d] = another object of value v. ==== *)
Import MiscMapper MiscMapperProofs.

(* no mapper: the dict itself, untouched *)
Theorem C14_mapper_absent : forall d, call_mapper None d = OData d.
Proof. exact cm_no_mapper. Qed.
Print Assumptions C14_mapper_absent.

(* ANY result other than None is used as it is – whatever its truth value – and the dict keeps the callback's mutations *)
Theorem C14_mapper_value_used_as_is : forall body v d,
  v <> PNone -> call_mapper (Some (CB body (RVal v))) d = OVal v (apply_mops d body).
Proof. exact cm_value_used_as_is. Qed.
Print Assumptions C14_mapper_value_used_as_is.

(* in particular the falsy ones: 0, "", (), False, [], {}, 0.0, ... *)
Theorem C14_mapper_falsy_value_used_as_is : forall body v d,
  truthy v = false -> v <> PNone -> call_mapper (Some (CB body (RVal v))) d = OVal v (apply_mops d body).
Proof. exact cm_falsy_used_as_is. Qed.
Print Assumptions C14_mapper_falsy_value_used_as_is.

(* None selects the dict object, as the callback left it *)
Theorem C14_mapper_none_selects_mutated_dict : forall body d,
  call_mapper (Some (CB body RNone)) d = OData (apply_mops d body).
Proof. exact cm_none_selects_mutated. Qed.
Print Assumptions C14_mapper_none_selects_mutated_dict.

(* the whole rule as a function of how the callback ends (an exception propagates, the mutations done so far stay) *)
Theorem C14_mapper_rule : forall body r d,
  call_mapper (Some (CB body r)) d = expected r (apply_mops d body).
Proof. exact cm_spec. Qed.
Print Assumptions C14_mapper_rule.

(* the caller holds the data dict itself exactly when there is no mapper, or it returned None, or it returned that dict *)
Theorem C14_mapper_is_data_iff : forall fn d,
  (exists d', call_mapper fn d = OData d') <->
  (fn = None \/ exists body r, fn = Some (CB body r) /\ returns_nothing r).
Proof. exact cm_is_data_iff. Qed.
Print Assumptions C14_mapper_is_data_iff.

(* the rule `fn(node, data) or data` (seeded change C05-3) differs from call_mapper exactly on falsy results that are not None *)
Theorem C14_mapper_or_rule_differs_iff : forall fn d,
  call_mapper_or fn d <> call_mapper fn d <->
  exists body v, fn = Some (CB body (RVal v)) /\ truthy v = false /\ v <> PNone.
Proof. exact cm_or_differs_iff. Qed.
Print Assumptions C14_mapper_or_rule_differs_iff.

(* a write of the callback is seen by every later reader of the dict, however the callback ends *)
Theorem C14_mapper_write_visible : forall body k v r d,
  d_get (after (call_mapper (Some (CB (body ++ [MSet k v]) r)) d)) k = Some v.
Proof. exact cm_last_write_visible. Qed.
Print Assumptions C14_mapper_write_visible.

(* the two deserialising call sites: from_dict reads item["data_id"] AFTER the mapper ("mapper may add item['data_id']"),
   load reads it BEFORE; the value is used by the same rule at both *)
Theorem C14_mapper_from_dict_sees_mapper_id : forall body v r item,
  snd (site_from_dict (Some (CB (body ++ [MSet k_data_id v]) r)) item) = Some v.
Proof. exact site_from_dict_sees_mapper_id. Qed.
Print Assumptions C14_mapper_from_dict_sees_mapper_id.

Theorem C14_mapper_load_reads_id_first : forall fn fn' data,
  snd (site_from_list fn data) = snd (site_from_list fn' data) /\ snd (site_from_list fn data) = d_get data k_data_id.
Proof. exact site_from_list_ignores_mapper_id. Qed.
Print Assumptions C14_mapper_load_reads_id_first.

(* non-vacuity: seven falsy non-None values are each handed back as they are (and the `or` rule loses every one of them);
   a None-returning callback's set / rename / set-to-None are all in the dict the caller gets *)
Example C14_mapper_ex_falsy :
  forallb (fun v => negb (truthy v) && negb (is_none v)) falsy_values = true /\
  map (fun v => call_mapper (Some (CB [MSet [107%Z] (PInt 1)] (RVal v))) [([97%Z], PInt 5)]) falsy_values =
  map (fun v => OVal v [([97%Z], PInt 5); ([107%Z], PInt 1)]) falsy_values /\
  map (fun v => call_mapper_or (Some (CB [MSet [107%Z] (PInt 1)] (RVal v))) [([97%Z], PInt 5)]) falsy_values =
  map (fun _ => OData [([97%Z], PInt 5); ([107%Z], PInt 1)]) falsy_values.
Proof. exact ex_falsy_all_used. Qed.

Example C14_mapper_ex_none :
  call_mapper (Some (CB [MSet [97%Z] (PInt 6); MRename [97%Z] [98%Z]; MSet [99%Z] PNone] RNone)) [([97%Z], PInt 5); ([120%Z], PStr [])] =
  OData [([120%Z], PStr []); ([98%Z], PInt 6); ([99%Z], PNone)].
Proof. exact ex_none_uses_mutated. Qed.

(* ==== PART COMMONMISC: common.check_python_version / PYTHON_VERSION / tree.MIN_PYTHON_VERSION_INFO and the exception
   hierarchy (model theories/Forest/MiscCommon.v, correspondence Cases/CaseMiscCommon.v under a patched sys.version_info,
   harness parts_misc.COMMONMISC).  [cur3] = the three int components of sys.version_info, whose fourth is the str 'final'. ==== *)
Import MiscRepr MiscCommon MiscCommonProofs.

(* tuple `<` is lexicographic: "less" exactly when a first differing position exists and holds a smaller component *)
Theorem C14_version_tuple_order : forall a b,
  cmp_prefix a b = Some true <-> exists p x y a' b', a = p ++ x :: a' /\ b = p ++ y :: b' /\ (x < y)%Z.
Proof. exact cmp_prefix_lt_iff. Qed.
Print Assumptions C14_version_tuple_order.

(* True exactly when the running version is not less than the minimum; a DeprecationWarning exactly when the answer is False *)
Theorem C14_version_check_spec : forall real3 cur3 minv,
  match check_python_version real3 cur3 minv with
  | inl e => version_lt cur3 minv = inl e
  | inr (r, w) => version_lt cur3 minv = inr (negb r) /\ (w = None <-> r = true)
  end.
Proof. exact check_python_version_spec. Qed.
Print Assumptions C14_version_check_spec.

(* a minimum of at most three components never raises; (a longer one reaches 'final' and raises TypeError: see the Example) *)
Theorem C14_version_check_total : forall cur3 minv, length cur3 = 3%nat -> (length minv <= 3)%nat -> exists r, version_lt cur3 minv = inr r.
Proof. exact check_python_version_total. Qed.
Print Assumptions C14_version_check_total.

(* an interpreter at or above [maj; mnr] is accepted silently, one below is answered False with a warning naming both versions *)
Theorem C14_version_supported : forall real3 maj mnr c2 c3,
  (mnr <= c2)%Z -> check_python_version real3 [maj; c2; c3] [maj; mnr] = inr (true, None).
Proof. exact check_python_version_supported. Qed.
Print Assumptions C14_version_supported.

Theorem C14_version_deprecated : forall real3 maj mnr c2 c3,
  (c2 < mnr)%Z ->
  check_python_version real3 [maj; c2; c3] [maj; mnr] =
  inr (false, Some (t_warn1 ++ (repr_int maj ++ [46%Z] ++ repr_int mnr) ++ t_warn2 ++ python_version real3 ++ [41%Z])).
Proof. exact check_python_version_deprecated. Qed.
Print Assumptions C14_version_deprecated.

(* tie to the source (gen_facts section MISCCOMMON): the comparison is `<`, the branches return False / True, the message
   shows three components, tree.py checks MIN_PYTHON_VERSION_INFO = (3, 8) at import; both library errors are TreeErrors,
   TreeError is a RuntimeError (so `except RuntimeError` sees them), neither is the other, none is a ValueError *)
Theorem C14_common_source_facts :
  GEN_MISCCOMMON_OK = true /\ VERSION_CHECK_OP = [60%Z] /\ VERSION_CHECK_RETURNS = [false; true] /\ VERSION_CHECK_SLICE = 3%Z /\
  VERSION_CHECKED_AT_IMPORT = true /\ MIN_PYTHON_VERSION_INFO = [3; 8]%Z /\
  let U := [85; 110; 105; 113; 117; 101; 67; 111; 110; 115; 116; 114; 97; 105; 110; 116; 69; 114; 114; 111; 114]%Z in
  let Am := [65; 109; 98; 105; 103; 117; 111; 117; 115; 77; 97; 116; 99; 104; 69; 114; 114; 111; 114]%Z in
  let Te := [84; 114; 101; 101; 69; 114; 114; 111; 114]%Z in
  let Re := [82; 117; 110; 116; 105; 109; 101; 69; 114; 114; 111; 114]%Z in
  let Ve := [86; 97; 108; 117; 101; 69; 114; 114; 111; 114]%Z in
  map (fun c => map (is_subclass 4 ERROR_BASES c) [Te; Re; U; Am; Ve]) [U; Am; Te] =
  [[true; true; true; false; false]; [true; true; false; true; false]; [true; true; false; false; false]].
Proof. vm_compute. repeat split. Qed.
Print Assumptions C14_common_source_facts.

(* non-vacuity: on 3.12.1 – (3,8) accepted; (3,12,2) deprecated with the message; (3,12,1,0) reaches 'final': TypeError *)
Example C14_version_ex :
  map (check_python_version [3; 12; 1] [3; 12; 1])%Z [[3; 8]; [3; 12; 2]; [3; 12; 1; 0]]%Z =
  [inr (true, None);
   inr (false, Some (t_warn1 ++ [51; 46; 49; 50; 46; 50]%Z ++ t_warn2 ++ [51; 46; 49; 50; 46; 49; 41]%Z));
   inl E_TYPE].
Proof. vm_compute. reflexivity. Qed.
