(* C14 — the nested list-of-dicts form round-trips and mirrors the tree.
   Statements only; proofs are in theories/Forest/DictListProofs.v and
   theories/Cases/CaseC14Facts.v.

   Model (theories/Forest/DictList.v): [to_dict sm t], [to_dict_list sm f],
   [from_dict dd calc next obj], [tree_from_dict dd next obj] over JSON-like
   values [jv].  [sm] is the serialisation mapper (a function of the node's
   payload and of the dict built so far), [dd] what the deserialisation step
   makes of item["data"].  Specifications (DictListProofs.v): [mirrors enc t j]
   (relational: the dict [j] has the entries the property asks for and its
   "children" mirror the children), [iso t t'] (same tree up to node identity,
   kind and meta), [sibuniq_f] (C03: no two siblings with one data_id).
   [sm_ok enc sm]: the serialisation mapper sets "data" to [enc] of the node,
   leaves "data_id" alone and does not invent "children" or "node_id" entries
   (it may add any other entry).  [i_hash = -1] stands for unhashable data. *)
From Coq Require Import List ZArith Bool.
From NT Require Import Sx Rose DictList DictListProofs CaseC14 CaseC14Facts.
From NTGen Require Import Generated.
Import ListNotations.

(* ---- to_dict_list mirrors the tree ------------------------------------ *)

(* One dict per node, nested like the tree and in child order; "data" holds the
   mapper's value [enc i], "data_id" is present exactly when the node's id is
   not hash(data) ([custom_id]: data unhashable – D30b –, or id <> hash) and then holds it, "children" is present exactly when the
   node has children.  For every serialisation mapper that sets "data" to
   [enc] of the node, leaves "data_id" alone and does not invent "children". *)
Theorem C14_mirror : forall (enc : info -> jv) (sm : smapper),
  sm_ok enc sm -> forall f : forest, Forall2 (mirrors enc) f (to_dict_list sm f).
Proof. exact to_dict_list_mirrors. Qed.
Print Assumptions C14_mirror.

(* without a mapper "data" is the node's name (str(data)) *)
Theorem C14_mirror_plain : forall f : forest,
  Forall2 (mirrors (fun i => JStr (i_name i))) f (to_dict_list sm_none f).
Proof. exact (to_dict_list_mirrors enc_name sm_none sm_none_ok). Qed.
Print Assumptions C14_mirror_plain.

(* ... and the dict has no other entries, in this order ([opt_id]: the entry the
   property asks for – the id when data is unhashable or the id differs from
   hash(data), nothing otherwise) *)
Theorem C14_plain_dict_exact : forall id i ch,
  to_dict sm_none (T id i ch) =
  JDict ([(k_data, JStr (i_name i))]
         ++ (match opt_id i with Some v => [(k_data_id, v)] | None => [] end)
         ++ (match ch with [] => [] | _ => [(k_children, JList (map (to_dict sm_none) ch))] end)).
Proof. exact to_dict_plain_exact. Qed.
Print Assumptions C14_plain_dict_exact.

(* Node.to_dict of any node mirrors that node's branch *)
Theorem C14_node_mirror : forall enc sm, sm_ok enc sm -> forall t : rt, mirrors enc t (to_dict sm t).
Proof. exact to_dict_mirrors. Qed.
Print Assumptions C14_node_mirror.

(* flattened along "children", the dicts are the nodes in pre-order: the
   ("data", "data_id") entries read off the dict forest are those of the
   pre-order node list *)
Theorem C14_dicts_in_preorder : forall enc sm, sm_ok enc sm -> forall f : forest,
  map head_of (dicts_of (to_dict_list sm f)) =
  map (fun x => (Some (enc (rinfo x)), opt_id (rinfo x))) (pre_f f).
Proof. exact dicts_pre. Qed.
Print Assumptions C14_dicts_in_preorder.

(* a tree without nodes (fresh, cleared, or emptied by remove()) gives [] — D30 *)
Theorem C14_empty : forall sm, to_dict_list sm [] = [].
Proof. reflexivity. Qed.
Print Assumptions C14_empty.

(* the mappers of the harness are admissible; the one dropping data_id is not *)
Theorem C14_harness_mappers : forall tbl,
  sm_ok enc_name (sm_of (SMextra tbl)) /\
  sm_ok (enc_of tbl) (sm_of (SMset tbl)) /\
  sm_ok (fun i => JList [JStr (i_name i); enc_of tbl i]) (sm_of (SMwrap tbl)) /\
  sm_ok (enc_of tbl) (sm_of (SMnew tbl true)) /\
  (forall enc, ~ sm_ok enc (sm_of (SMnew tbl false))) /\
  sm_kids (sm_of (SMguid tbl)).
Proof. exact (fun tbl => conj (sm_extra_ok tbl) (conj (sm_set_ok tbl) (conj (sm_wrap_ok tbl) (conj (sm_new_keep_ok tbl) (conj (sm_new_drop_not_ok tbl) (sm_guid_kids tbl)))))). Qed.
Print Assumptions C14_harness_mappers.

(* the keys written by Node.to_dict and read by Node.from_dict in /repo (lifted
   from the source text by gen_facts.py on every run) are the keys of the model,
   the source's data_id test is [self._data_id == hash(self._data)] guarded
   against TypeError (shape 2; shape 1 is the unguarded test of D30b), and
   Node.to_dict is the statement sequence the model mirrors (dict literal;
   guarded default test; id entry; call_mapper; children added after the
   mapper; return);
   from_dict's optional "node_id" entry is never written by to_dict *)
Theorem C14_source_keys :
  TO_DICT_KEYS = [k_data; k_data_id; k_children] /\
  FROM_DICT_KEYS = [k_data; k_data_id; k_node_id; k_children] /\
  TO_DICT_ID_TEST = 2%Z /\
  TO_DICT_SKELETON = [0; 5; 1; 2; 3; 4]%Z.
Proof. exact source_keys_ok. Qed.
Print Assumptions C14_source_keys.

(* ---- round trip ------------------------------------------------------- *)

(* from_dict(to_dict_list(t)) succeeds and rebuilds the same tree up to node
   identity: for every tree with unique sibling data_ids (the C03 invariant),
   every serialisation mapper that does not invent a "children" entry and every
   deserialisation step that is its inverse on the data objects of the tree.
   [inverse_on sm dd i]: from the dict to_dict writes for a node with payload i
   – whatever its "children" entry – the step builds an object with the same
   ==-class, hash, str-ness and printed form, and LEAVES THE ITEM with exactly
   the "data_id" entry the node needs (its id when custom, none otherwise) and
   no "node_id".  The step may read any entry and may change the item: a pair
   that moves the id to another key ("guid") and restores item["data_id"] in the
   deserialize mapper is an inverse pair (Node.from_dict reads "data_id" after
   the mapper ran: "mapper may add item['data_id']").  The rebuilt nodes are
   allocated in pre-order. *)
Theorem C14_roundtrip : forall (sm : smapper) (dd : dmapper) (next : nat) (f : forest),
  sm_kids sm -> sibuniq_f f -> Forall (allinfo (inverse_on sm dd)) f ->
  exists f', tree_from_dict dd next (to_dict_list sm f) = inl f' /\
             Forall2 iso f f' /\ ids f' = seq (S next) (size_f f).
Proof. exact roundtrip. Qed.
Print Assumptions C14_roundtrip.

(* the same for the admissible mappers of the mirror theorems ([sm_ok]: "data_id"
   left where to_dict put it), where a deserialisation step that only reads the
   item is inverse as soon as it rebuilds indistinguishable data *)
Theorem C14_roundtrip_ok : forall (enc : info -> jv) (sm : smapper) (dd : dmapper) (next : nat) (f : forest),
  sm_ok enc sm -> sibuniq_f f -> Forall (allinfo (inverse_on sm dd)) f ->
  exists f', tree_from_dict dd next (to_dict_list sm f) = inl f' /\
             Forall2 iso f f' /\ ids f' = seq (S next) (size_f f).
Proof. exact roundtrip_ok. Qed.
Print Assumptions C14_roundtrip_ok.

Theorem C14_inverse_on_readonly : forall (enc : info -> jv) (sm : smapper) (f : jdict -> res info) (i : info),
  sm_ok enc sm ->
  (forall D, own_entries (head_dict sm i) D -> exists i', f D = inl i' /\ same_data i i') ->
  inverse_on sm (dd_pure f) i.
Proof. exact inverse_on_pure. Qed.
Print Assumptions C14_inverse_on_readonly.

(* string data without mapper: [raw] is Python's reading of a JSON value; the
   only thing asked of it is that the str rebuilt from a node's characters is
   equal (==, hash) to the node's str *)
Theorem C14_roundtrip_strings : forall (raw : jv -> res info) (next : nat) (f : forest),
  sibuniq_f f ->
  (forall t, In t (pre_f f) -> exists i', raw (JStr (i_name (rinfo t))) = inl i' /\ same_data (rinfo t) i') ->
  exists f', tree_from_dict (dd_raw raw) next (to_dict_list sm_none f) = inl f' /\
             Forall2 iso f f' /\ ids f' = seq (S next) (size_f f).
Proof. exact roundtrip_strings. Qed.
Print Assumptions C14_roundtrip_strings.

(* what "the same tree" gives: same shape and child order (skeleton), the same
   data_id at every pre-order position (explicit ids carried, default ids
   recomputed equal), indistinguishable data at every position, and the same
   clone groups: two positions share a data_id after iff they did before *)
Theorem C14_iso_consequences : forall f f' : forest, Forall2 iso f f' ->
  map skel f' = map skel f /\
  map rdid (pre_f f') = map rdid (pre_f f) /\
  Forall2 node_agrees (pre_f f) (pre_f f') /\
  (forall p q x y x' y',
     nth_error (pre_f f) p = Some x -> nth_error (pre_f f) q = Some y ->
     nth_error (pre_f f') p = Some x' -> nth_error (pre_f f') q = Some y' ->
     (rdid x = rdid y <-> rdid x' = rdid y')).
Proof. exact iso_consequences. Qed.
Print Assumptions C14_iso_consequences.

(* from_dict on ANY input (hand-written, malformed, any mapper, any
   calc_data_id of the target tree): if it returns a tree, no two siblings in
   it share a data_id *)
Theorem C14_from_dict_safe : forall (dd : dmapper) (calc : info -> res did) (next : nat) (obj : list jv) (f : forest),
  from_dict dd calc next obj = inl f -> sibuniq_f f.
Proof. exact from_dict_safe. Qed.
Print Assumptions C14_from_dict_safe.

(* from_dict on ANY input, when it returns a tree: one node per item dict, nested
   and ordered like the items; each node's data is what the deserialisation step
   makes of the item's "data", its data_id the item's "data_id" entry or, without
   one, calc_data_id of that data (relational spec [built]) *)
Theorem C14_from_dict_mirrors_input : forall (dd : dmapper) (calc : info -> res did) (next : nat) (obj : list jv) (f : forest),
  from_dict dd calc next obj = inl f -> Forall2 (built dd calc) (map parse obj) f.
Proof. exact from_dict_built. Qed.
Print Assumptions C14_from_dict_mirrors_input.

(* ... and the explicit node ids it registered ([nids]: the "node_id" entries of
   the items, int()-converted, in pre-order; by C14_from_dict_mirrors_input
   these are the node ids of the built nodes) are pairwise different and not 0 *)
Theorem C14_from_dict_node_ids : forall (dd : dmapper) (calc : info -> res did) (next : nat) (obj : list jv) (f : forest),
  from_dict dd calc next obj = inl f ->
  NoDup (flat_map (nids dd) (map parse obj)) /\ ~ In 0%Z (flat_map (nids dd) (map parse obj)).
Proof. exact from_dict_node_ids. Qed.
Print Assumptions C14_from_dict_node_ids.

(* the other direction: a canonical dict list (per item exactly what to_dict
   writes: "data" a string that reads back under that name, "data_id" only when
   not the default, "children" only when non-empty) is reproduced exactly by
   to_dict_list(from_dict(obj)) *)
Theorem C14_canonical_roundtrip : forall (dd : dmapper) (next : nat) (obj : list jv) (f : forest),
  Forall (canon dd) obj -> from_dict dd default_did next obj = inl f -> to_dict_list sm_none f = obj.
Proof. exact canonical_roundtrip. Qed.
Print Assumptions C14_canonical_roundtrip.

(* Node.from_dict on a childless node of an existing tree (any calc_data_id
   hook, any input): a tree with unique sibling ids stays one *)
Theorem C14_node_from_dict_safe : forall dd calc next (f : forest) target obj f',
  sibuniq_f f -> node_from_dict dd calc next f target obj = inl f' -> sibuniq_f f'.
Proof. exact node_from_dict_safe. Qed.
Print Assumptions C14_node_from_dict_safe.

(* which inputs are refused: for inputs whose items are all well formed (data
   readable, data_id entry usable), from_dict succeeds iff no two sibling items
   have one effective id (the data_id entry or, without one, calc_data_id of the
   data), and the only error it can raise is UniqueConstraintError *)
Theorem C14_from_dict_refusal : forall (dd : dmapper) (calc : info -> res did) (next : nat) (obj : list jv),
  Forall (wf_pt dd calc) (map parse obj) ->
  ((exists f, from_dict dd calc next obj = inl f) <-> uniq_items dd calc obj) /\
  (forall e, from_dict dd calc next obj = inr e -> e = E_UNIQUE).
Proof. exact from_dict_refusal. Qed.
Print Assumptions C14_from_dict_refusal.

(* ---- non-vacuity and necessity of the hypotheses ----------------------- *)

(* strings, clones, falsy explicit ids (0 and ""), an explicit id equal to the
   default: hypotheses hold, dump and rebuilt tree computed *)
Example C14_ex_strings_hyps : sibuniq_f ex_f /\
  (forall t, In t (pre_f ex_f) -> exists i', ex_raw (JStr (i_name (rinfo t))) = inl i' /\ same_data (rinfo t) i').
Proof. exact (conj ex_sibuniq ex_strings). Qed.

Example C14_ex_dump :
  to_dict_list sm_none ex_f =
  [ JDict [(k_data, JStr [97%Z]); (k_data_id, JInt 0);
           (k_children, JList [JDict [(k_data, JStr [98%Z]); (k_data_id, JStr [])]; JDict [(k_data, JStr [97%Z])]])];
    JDict [(k_data, JStr [98%Z]); (k_children, JList [JDict [(k_data, JStr [97%Z]); (k_data_id, JInt 0)]])] ].
Proof. exact ex_dump. Qed.

Example C14_ex_rebuilt :
  exists f', tree_from_dict (dd_raw ex_raw) 5 (to_dict_list sm_none ex_f) = inl f' /\ ids f' = [6; 7; 8; 9; 10]%nat.
Proof. eexists. split; [exact ex_rebuilt|reflexivity]. Qed.

Example C14_ex_canonical : Forall (canon (dd_raw ex_raw)) (to_dict_list sm_none ex_f).
Proof. exact ex_canon. Qed.

(* objects with an inverse mapper pair (value-equal objects, an identity-hashed
   object, a clone, an explicit id) *)
Example C14_ex_objects_hyps :
  sm_ok (enc_of ex_tbl) (sm_of (SMset ex_tbl)) /\ sibuniq_f ex_g /\ Forall (allinfo (inverse_on (sm_of (SMset ex_tbl)) ex_dd)) ex_g.
Proof. exact (conj (sm_set_ok ex_tbl) (conj ex_g_sibuniq ex_g_inverse)). Qed.

(* a pair that moves the id to another key and back (serialize: data["g"] =
   data.pop("data_id"); deserialize: item["data_id"] = item.pop("g")) is an
   inverse pair; the explicit id and the clone come back *)
Example C14_ex_guid_pair :
  sm_kids (sm_of (SMguid ex_tbl)) /\ Forall (allinfo (inverse_on (sm_of (SMguid ex_tbl)) ex_dd_guid)) ex_g /\
  exists f', tree_from_dict ex_dd_guid 4 (to_dict_list (sm_of (SMguid ex_tbl)) ex_g) = inl f' /\
             map rdid (pre_f f') = map rdid (pre_f ex_g).
Proof.
  refine (conj (sm_guid_kids ex_tbl) (conj ex_guid_inverse _)).
  eexists. split; [exact ex_guid_rebuilt|reflexivity].
Qed.

(* without the inverse-pair hypothesis, or without sibling uniqueness, the round trip fails *)
Example C14_roundtrip_needs_inverse :
  tree_from_dict (dd_raw (fun _ => inl (I (-1) 0 0 true [] (DInt 0) None []))) 0
                 (to_dict_list sm_none [T 1 (ex_a (DInt 11)) []; T 2 (ex_b (DInt 22)) []]) = inr E_UNIQUE.
Proof. exact ex_not_inverse. Qed.

Example C14_dropping_mapper_loses_ids :
  tree_from_dict (dd_raw ex_raw) 0 (to_dict_list (sm_of (SMnew [(1%Z, JStr [97%Z])] false)) [T 1 (ex_a (DInt 0)) []]) =
  inl [T 1 (I (-1) 1 11 true [97%Z] (DInt 11) None []) []].
Proof. exact ex_drop_loses_ids. Qed.

Example C14_ex_node_ids :
  tree_from_dict (dd_raw ex_raw) 0
    [JDict [(k_data, JStr [97%Z]); (k_node_id, JInt 5); (k_children, JList [JDict [(k_data, JStr [98%Z]); (k_node_id, JStr [49%Z; 50%Z])]])]] =
  inl [T 1 (I (-1) 1 11 true [97%Z] (DInt 11) None [(k_node_id, A 5)])
         [T 2 (I (-1) 2 22 true [98%Z] (DInt 22) None [(k_node_id, A 12)]) []]] /\
  tree_from_dict (dd_raw ex_raw) 0
    [JDict [(k_data, JStr [97%Z]); (k_node_id, JInt 5)]; JDict [(k_data, JStr [98%Z]); (k_node_id, JInt 5); (k_data_id, JList [])]] =
  inr E_ASSERT.
Proof. exact ex_node_ids. Qed.

Example C14_roundtrip_needs_sibuniq :
  tree_from_dict (dd_raw ex_raw) 0 (to_dict_list sm_none [T 1 (ex_a (DInt 11)) []; T 2 (ex_a (DInt 11)) []]) = inr E_UNIQUE.
Proof. exact ex_not_unique. Qed.

(* the generated facts this property uses were lifted from the current source *)
Theorem C14_generated_facts_present : GEN_DICTLIST_OK = true.
Proof. reflexivity. Qed.
Print Assumptions C14_generated_facts_present.

(* ====================================================================================== *)
(* Glue C14 <-> C04/C01 (theories/Glue/GlueFromDict.v).  from_dict is modelled twice: here
   (Forest/DictList.v: JSON items read through a deserialisation step [dd], identities assigned by
   [renum_f] afterwards) and in the mutation machine (Mut/Machine.v [op_from_dict] / [OTreeFromDict]:
   a sequence of add_child calls on the tree state, with the handlers of fix D48; C04_from_dict
   characterises its result).  [enc dd calc cs it p]: the decoded JSON item p says what the machine item
   it says - same data object, same explicit data_id or none, no explicit node_id, calc_data_id answers
   alike (a raising callback is class 8 in both), same children.  Then both models build the SAME
   forest, identities included ([next] = allocator - 1), and refuse the SAME inputs with the same error
   class; after a refusal the machine's trees are unchanged.  Plain trees (typed = false: the dict-list
   model has no kinds). *)
From NT Require Machine WF GlueFromDict.

Theorem C14_agrees_with_mutation_model_node_from_dict : forall dd dcalc w ti p items obj t m,
  WF.WFw w -> Machine.get_tree w ti = Some t -> Machine.typed t = false -> Machine.next w = S m ->
  In p (ids (Machine.forest_of t)) ->
  Forall2 (GlueFromDict.enc dd dcalc (Machine.calc t)) items (map parse obj) ->
  match Machine.op_from_dict w ti p items, node_from_dict dd dcalc m (Machine.forest_of t) p obj with
  | (Machine.Ok _, w'), inl f' => exists t', Machine.get_tree w' ti = Some t' /\ Machine.forest_of t' = f' /\
                                             forall tj, tj <> ti -> Machine.get_tree w' tj = Machine.get_tree w tj
  | (Machine.Err e, w'), inr ez => ez = Z.of_nat e /\ Machine.trees w' = Machine.trees w
  | _, _ => False
  end.
Proof. exact GlueFromDict.glue_node_from_dict. Qed.
Print Assumptions C14_agrees_with_mutation_model_node_from_dict.

Theorem C14_agrees_with_mutation_model_tree_from_dict : forall dd w items obj m, WF.WFw w -> Machine.next w = S m ->
  Forall2 (GlueFromDict.enc dd default_did None) items (map parse obj) ->
  match Machine.op_tree_from_dict w items, tree_from_dict dd m obj with
  | (Machine.Ok r, w'), inl f' => r = [length (Machine.trees w)] /\
        exists t', Machine.get_tree w' (length (Machine.trees w)) = Some t' /\ Machine.forest_of t' = f' /\
                   forall tj, (tj < length (Machine.trees w))%nat -> Machine.get_tree w' tj = Machine.get_tree w tj
  | (Machine.Err e, w'), inr ez => ez = Z.of_nat e /\ Machine.trees w' = Machine.trees w
  | _, _ => False
  end.
Proof. exact GlueFromDict.glue_tree_from_dict. Qed.
Print Assumptions C14_agrees_with_mutation_model_tree_from_dict.

(* non-vacuity: plain int data objects, "data": z, one explicit data_id, one duplicate sibling *)
Definition c14g_raw (v : jv) : res info :=
  match v with JInt z => inl (I z z z false [z] (DInt 0) None []) | _ => inr E_TYPE end.
Definition c14g_dat (z : Z) : Machine.dat := Machine.D z z z false [z].
Definition c14g_item (z : Z) (e : option jv) (kids : list jv) : jv :=
  JDict (([100; 97; 116; 97], JInt z) :: (match e with Some v => [(k_data_id, v)] | None => [] end) ++ [(k_children, JList kids)]).
Example C14_agrees_with_mutation_model_nonvacuous :
  let obj := [c14g_item 5 None [c14g_item 6 (Some (JStr [120%Z])) []]; c14g_item 7 None []] in
  let items := [Machine.DI (c14g_dat 5) None [Machine.DI (c14g_dat 6) (Some (DStr [120%Z])) []]; Machine.DI (c14g_dat 7) None []] in
  let bad := [c14g_item 5 None []; c14g_item 5 None []] in
  let bad_items := [Machine.DI (c14g_dat 5) None []; Machine.DI (c14g_dat 5) None []] in
  Forall2 (GlueFromDict.enc (dd_raw c14g_raw) default_did None) items (map parse obj) /\
  Forall2 (GlueFromDict.enc (dd_raw c14g_raw) default_did None) bad_items (map parse bad) /\
  tree_from_dict (dd_raw c14g_raw) 0%nat obj =
    inl (Machine.forest_of (nth 0%nat (Machine.trees (snd (Machine.op_tree_from_dict Machine.empty_world items))) (Machine.TS [] [] [] false None))) /\
  tree_from_dict (dd_raw c14g_raw) 0%nat bad = inr E_UNIQUE /\
  fst (Machine.op_tree_from_dict Machine.empty_world bad_items) = Machine.Err Machine.EUnique.
Proof.
  cbv zeta. split; [|split; [|split; [|split]]]; try (vm_compute; reflexivity).
  - repeat (first [apply Forall2_nil | apply Forall2_cons | eapply GlueFromDict.enc_item; [vm_compute; reflexivity|repeat split|vm_compute; reflexivity|vm_compute; reflexivity|vm_compute; reflexivity|]]).
  - repeat (first [apply Forall2_nil | apply Forall2_cons | eapply GlueFromDict.enc_item; [vm_compute; reflexivity|repeat split|vm_compute; reflexivity|vm_compute; reflexivity|vm_compute; reflexivity|]]).
Qed.
