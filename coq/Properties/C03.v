(* C03 - a parent never holds two children with the same data_id; every route that
   would create such a pair is refused with the uniqueness error.
   Statements only; proofs in theories/Mut/Refusal.v and theories/Mut/Invariant.v.

   [sibling_with f p d excl] is the route-independent collision predicate: the parent
   with identity [p] (0 = the invisible root) has a child, other than node [excl],
   whose data_id is [d]. *)
From Coq Require Import List ZArith Bool Arith Permutation.
From NT Require Import Sx Rose Surgery Machine WF PreserveRelabel Invariant Refusal.
Import ListNotations.

(* ---- the invariant: sibling uniqueness is part of WF, hence holds after every history ---- *)
Theorem C03_siblings_unique : forall t, WF t -> sib_unique (forest_of t).
Proof. intros t H. apply SU_sib_unique. apply H. Qed.
Print Assumptions C03_siblings_unique.

Theorem C03_invariant : forall ops w t, WFw w -> In t (trees (run ops w)) ->
  NoDup (map rdid (forest_of t)) /\ forall s, In s (pre_f (forest_of t)) -> NoDup (map rdid (rch s)).
Proof.
  intros ops w t H Ht. assert (X := WFw_run ops w H). destruct X as [X _ _ _]. rewrite Forall_forall in X.
  apply SU_sib_unique. apply (X t Ht).
Qed.
Print Assumptions C03_invariant.

Theorem C03_reachable : forall ops t, In t (trees (run ops empty_world)) -> sib_unique (forest_of t).
Proof. intros ops t Ht. exact (C03_invariant ops empty_world t WFw_empty Ht). Qed.
Print Assumptions C03_reachable.

(* ---- the library's uniqueness test (Tree._register: a clone with the same parent) is exactly
   the collision predicate ---- *)
Theorem C03_uniqueness_test_exact : forall t p ch d, WF t -> children_of p (forest_of t) = Some ch ->
  (collides t p d = true <-> sibling_with (forest_of t) p d 0).
Proof. exact collides_iff_sibling. Qed.
Print Assumptions C03_uniqueness_test_exact.

(* ---- refusal, route by route ---- *)
(* add_child(data) / add(data) *)
Theorem C03_add_refused : forall w ti p d explicit k b t id,
  WFw w -> get_tree w ti = Some t ->
  (match explicit with Some e => Some e | None => calc_id (calc t) d end) = Some id ->
  sibling_with (forest_of t) p id 0 ->
  (forall ch, children_of p (forest_of t) = Some ch -> before_ok (norm_before b) ch = true) ->
  fst (step w (OAdd ti p d explicit k b)) = Err EUnique.
Proof. exact add_refused. Qed.
Print Assumptions C03_add_refused.

(* whatever [before] is, a colliding add never succeeds *)
Theorem C03_add_never_succeeds : forall w ti p d explicit k b t id,
  WFw w -> get_tree w ti = Some t ->
  (match explicit with Some e => Some e | None => calc_id (calc t) d end) = Some id ->
  sibling_with (forest_of t) p id 0 ->
  exists e, fst (step w (OAdd ti p d explicit k b)) = Err e /\ (e = EUnique \/ e = EValue).
Proof. exact add_never_succeeds. Qed.
Print Assumptions C03_add_never_succeeds.

(* and no over-refusal: without a collision the add goes through *)
Theorem C03_add_accepted : forall w ti p d explicit k b t id ch,
  WFw w -> get_tree w ti = Some t -> children_of p (forest_of t) = Some ch ->
  (match explicit with Some e => Some e | None => calc_id (calc t) d end) = Some id ->
  ~ sibling_with (forest_of t) p id 0 -> before_ok (norm_before b) ch = true ->
  fst (step w (OAdd ti p d explicit k b)) = Ok [next w].
Proof. exact add_accepted. Qed.
Print Assumptions C03_add_accepted.

(* append_child / prepend_child / prepend_sibling / append_sibling *)
Theorem C03_append_child_refused : forall w ti n d explicit k t id,
  WFw w -> get_tree w ti = Some t ->
  (match explicit with Some e => Some e | None => calc_id (calc t) d end) = Some id ->
  sibling_with (forest_of t) n id 0 ->
  fst (step w (OShort ti n SAppendChild d explicit k)) = Err EUnique.
Proof. exact append_child_refused. Qed.
Print Assumptions C03_append_child_refused.

Theorem C03_prepend_child_refused : forall w ti n d explicit k t id,
  WFw w -> get_tree w ti = Some t ->
  (match explicit with Some e => Some e | None => calc_id (calc t) d end) = Some id ->
  sibling_with (forest_of t) n id 0 ->
  fst (step w (OShort ti n SPrependChild d explicit k)) = Err EUnique.
Proof. exact prepend_child_refused. Qed.
Print Assumptions C03_prepend_child_refused.

Theorem C03_prepend_sibling_refused : forall w ti n d explicit k t id p s,
  WFw w -> get_tree w ti = Some t ->
  parent_of n (forest_of t) = Some p -> get_node n (forest_of t) = Some s ->
  (match explicit with Some e => Some e | None => calc_id (calc t) d end) = Some id ->
  sibling_with (forest_of t) p id 0 ->
  fst (step w (OShort ti n SPrependSibling d explicit k)) = Err EUnique.
Proof. exact prepend_sibling_refused. Qed.
Print Assumptions C03_prepend_sibling_refused.

Theorem C03_append_sibling_refused : forall w ti n d explicit k t id p s,
  WFw w -> get_tree w ti = Some t ->
  parent_of n (forest_of t) = Some p -> get_node n (forest_of t) = Some s ->
  (match explicit with Some e => Some e | None => calc_id (calc t) d end) = Some id ->
  sibling_with (forest_of t) p id 0 ->
  fst (step w (OShort ti n SAppendSibling d explicit k)) = Err EUnique.
Proof. exact append_sibling_refused. Qed.
Print Assumptions C03_append_sibling_refused.

(* add_child(node) / copy_to(add_self=True): the copy's data_id is already below the parent;
   the side conditions exclude the refusals that come earlier with another error class
   (class mismatch, deep+data_id, deep copy into its own branch, unknown before) *)
Theorem C03_add_node_refused : forall w ti p sti src explicit k b deep t st s ch,
  WFw w -> get_tree w ti = Some t -> get_tree w sti = Some st ->
  get_node src (forest_of st) = Some s -> children_of p (forest_of t) = Some ch ->
  sibling_with (forest_of t) p (match explicit with Some e => e | None => rdid s end) 0 ->
  let dp := match deep with Some x => x | None => false end in
  typed t && negb (typed st) = false ->
  dp && (match explicit with Some _ => true | None => false end) = false ->
  dp && Nat.eqb ti sti && is_desc_or_self src p (forest_of st) = false ->
  before_ok (norm_before b) ch = true ->
  negb (typed t) && typed st = false ->
  fst (step w (OAddNode ti p sti src explicit k b deep)) = Err EUnique.
Proof. exact add_node_refused. Qed.
Print Assumptions C03_add_node_refused.

(* copy_to(add_self=False): one of the copied children collides *)
Theorem C03_copy_to_refused : forall w sti src ti target b deep t st chs c,
  WFw w -> get_tree w ti = Some t -> get_tree w sti = Some st ->
  children_of src (forest_of st) = Some chs -> In c chs ->
  sibling_with (forest_of t) target (rdid c) 0 ->
  fst (step w (OCopyTo sti src ti target false b deep)) = Err EUnique.
Proof. exact copy_to_refused. Qed.
Print Assumptions C03_copy_to_refused.

(* add(tree): some top node of the source tree collides *)
Theorem C03_add_tree_refused : forall w ti p sti b deep t st c,
  WFw w -> get_tree w ti = Some t -> get_tree w sti = Some st ->
  typed t && negb (typed st) = false -> In c (forest_of st) ->
  sibling_with (forest_of t) p (rdid c) 0 ->
  fst (step w (OAddTree ti p sti b deep)) = Err EUnique.
Proof. exact add_tree_refused. Qed.
Print Assumptions C03_add_tree_refused.

(* move_to under another parent that already has a child with the node's data_id *)
Theorem C03_move_refused : forall w ti n target b t s tch cur,
  WFw w -> get_tree w ti = Some t -> typed t = false ->
  get_node n (forest_of t) = Some s -> children_of target (forest_of t) = Some tch ->
  parent_of n (forest_of t) = Some cur -> cur <> target ->
  is_desc_or_self n target (forest_of t) = false -> before_ok (norm_before b) tch = true ->
  sibling_with (forest_of t) target (rdid s) n ->
  fst (step w (OMove ti n ti target b)) = Err EUnique.
Proof. exact move_refused. Qed.
Print Assumptions C03_move_refused.

(* remove(keep_children=True): a child's data_id occurs among the OTHER siblings of the removed node *)
Theorem C03_remove_keep_refused : forall w ti n t s q0 a b c o,
  WFw w -> get_tree w ti = Some t -> get_node n (forest_of t) = Some s ->
  node_loc n (forest_of t) = Some (q0, length a, a ++ s :: b) ->
  In c (rch s) -> In o (a ++ b) -> rdid o = rdid c ->
  fst (step w (ORemove ti n true false)) = Err EUnique.
Proof. exact remove_keep_refused. Qed.
Print Assumptions C03_remove_keep_refused.

(* set_data(data_id=e) on a single node / one clone only: a sibling already has e *)
Theorem C03_set_data_refused : forall w ti n t s q0 i l x e wcl,
  WFw w -> get_tree w ti = Some t -> get_node n (forest_of t) = Some s -> e <> rdid s ->
  node_loc n (forest_of t) = Some (q0, i, l) -> In x l -> rid x <> n -> rdid x = e ->
  (Nat.ltb 1 (length (idx_get (rdid s) (idx t))) = false \/ wcl = Some false) ->
  fst (step w (OSetData ti n None (Some e) wcl)) = Err EUnique.
Proof. exact set_data_refused. Qed.
Print Assumptions C03_set_data_refused.

(* set_data(data_id=e, with_clones=True): every re-keyed clone is checked against its own siblings *)
Theorem C03_set_data_clones_refused : forall w ti n t s m q0 i l x e,
  WFw w -> get_tree w ti = Some t -> get_node n (forest_of t) = Some s -> e <> rdid s ->
  Nat.ltb 1 (length (idx_get (rdid s) (idx t))) = true ->
  In m (idx_get (rdid s) (idx t)) -> node_loc m (forest_of t) = Some (q0, i, l) ->
  In x l -> rdid x = e -> ~ In (rid x) (idx_get (rdid s) (idx t)) ->
  fst (step w (OSetData ti n None (Some e) (Some true))) = Err EUnique.
Proof. exact set_data_clones_refused. Qed.
Print Assumptions C03_set_data_clones_refused.

(* set_data(new data): the data_id calculated from the new data is a sibling's *)
Theorem C03_set_data_by_data_refused : forall w ti n t s q0 i l x d e wcl,
  WFw w -> get_tree w ti = Some t -> get_node n (forest_of t) = Some s ->
  Z.eqb (d_obj d) (i_obj (rinfo s)) = false ->
  calc_id (calc t) d = Some e -> e <> rdid s ->
  (Nat.ltb 1 (length (idx_get (rdid s) (idx t))) = false \/ wcl = Some false) ->
  node_loc n (forest_of t) = Some (q0, i, l) -> In x l -> rid x <> n -> rdid x = e ->
  fst (step w (OSetData ti n (Some d) None wcl)) = Err EUnique.
Proof. exact set_data_by_data_refused. Qed.
Print Assumptions C03_set_data_by_data_refused.

(* rename(new str) whose calculated id is a sibling's *)
Theorem C03_rename_refused : forall w ti n t s q0 i l x d e,
  WFw w -> get_tree w ti = Some t -> get_node n (forest_of t) = Some s ->
  i_isstr (rinfo s) = true -> Z.eqb (d_obj d) (i_obj (rinfo s)) = false ->
  calc_id (calc t) d = Some e -> e <> rdid s ->
  Nat.ltb 1 (length (idx_get (rdid s) (idx t))) = false ->
  node_loc n (forest_of t) = Some (q0, i, l) -> In x l -> rid x <> n -> rdid x = e ->
  fst (step w (ORename ti n d)) = Err EUnique.
Proof. exact rename_refused. Qed.
Print Assumptions C03_rename_refused.

(* from_dict: the item about to be added collides below its parent -> the item, and with it the whole
   call ([from_dict_items] / [op_from_dict] propagate the first error), is refused; load is not part
   of this model *)
Theorem C03_from_dict_item_refused : forall w ti p d e ch t id,
  WFw w -> get_tree w ti = Some t ->
  (match e with Some x => Some x | None => calc_id (calc t) d end) = Some id ->
  sibling_with (forest_of t) p id 0 ->
  fst (from_dict_item ti p (DI d e ch) w) = Err EUnique.
Proof. exact from_dict_item_refused. Qed.
Print Assumptions C03_from_dict_item_refused.

Theorem C03_from_dict_error_propagates : forall ti p x l w err, fst (from_dict_item ti p x w) = Err err ->
  fst (from_dict_items ti p (x :: l) w) = Err err.
Proof. exact from_dict_items_err. Qed.
Print Assumptions C03_from_dict_error_propagates.

(* ---- non-vacuity: each route driven into a collision on a reachable world ---- *)
Definition c03_dd (z : Z) : dat := D z z z false [z].
Definition c03_ops : list op :=
  [ONewTree false None;
   OAdd 0 0 (c03_dd 10) None None BNone;     (* 1: did 10 *)
   OAdd 0 1 (c03_dd 20) None None BNone;     (* 2: did 20 under 1 *)
   OAdd 0 0 (c03_dd 20) None None BNone;     (* 3: did 20 top *)
   OAdd 0 3 (c03_dd 10) None None BNone;     (* 4: did 10 under 3 *)
   OAdd 0 0 (c03_dd 30) None None BNone].    (* 5: did 30 top *)
Definition c03_w : world := run c03_ops empty_world.
Example C03_nonvacuous :
  wf_world_b c03_w = true /\
  fst (step c03_w (OAdd 0 0 (c03_dd 10) None None BNone)) = Err EUnique /\            (* add *)
  fst (step c03_w (OShort 0 2 SAppendSibling (c03_dd 20) None None)) = Err EUnique /\ (* shortcut *)
  fst (step c03_w (OAddNode 0 0 0 2 None None BNone None)) = Err EUnique /\           (* node copy *)
  fst (step c03_w (OCopyTo 0 3 0 0 false BNone true)) = Err EUnique /\                (* copy_to children *)
  fst (step c03_w (OMove 0 2 0 0 BNone)) = Err EUnique /\                             (* move *)
  fst (step c03_w (ORemove 0 3 true false)) = Err EUnique /\                          (* un-nesting *)
  fst (step c03_w (OSetData 0 5 None (Some (DInt 20)) None)) = Err EUnique /\         (* set_data *)
  fst (step c03_w (OSetData 0 1 None (Some (DInt 30)) (Some true))) = Err EUnique /\    (* set_data with clones *)
  fst (step c03_w (OFromDict 0 5 [DI (c03_dd 7) None []; DI (c03_dd 7) None []])) = Err EUnique. (* from_dict *)
Proof. vm_compute. repeat split. Qed.
