(* C03 - a parent never holds two children with the same data_id; every route that
   would create such a pair is refused with the uniqueness error.
   Statements only; proofs in theories/Mut/Refusal.v and theories/Mut/Invariant.v.

   [sibling_with f p d excl] is the route-independent collision predicate: the parent
   with identity [p] (0 = the invisible root) has a child, other than node [excl],
   whose data_id is [d]. *)
From Coq Require Import List ZArith Bool Arith Permutation.
From NT Require Import Sx Rose Surgery Machine WF PreserveRelabel Invariant Refusal.
Import ListNotations.

(* ---- the invariant: sibling uniqueness is part of WF, hence holds after every history ---- *)
Theorem C03_siblings_unique : forall t, WF t -> sib_unique (forest_of t).
Proof. intros t H. apply SU_sib_unique. apply H. Qed.
Print Assumptions C03_siblings_unique.

Theorem C03_invariant : forall ops w t, WFw w -> In t (trees (run ops w)) ->
  NoDup (map rdid (forest_of t)) /\ forall s, In s (pre_f (forest_of t)) -> NoDup (map rdid (rch s)).
Proof.
  intros ops w t H Ht. assert (X := WFw_run ops w H). destruct X as [X _ _ _]. rewrite Forall_forall in X.
  apply SU_sib_unique. apply (X t Ht).
Qed.
Print Assumptions C03_invariant.

Theorem C03_reachable : forall ops t, In t (trees (run ops empty_world)) -> sib_unique (forest_of t).
Proof. intros ops t Ht. exact (C03_invariant ops empty_world t WFw_empty Ht). Qed.
Print Assumptions C03_reachable.

(* ---- the library's uniqueness test (Tree._register: a clone with the same parent) is exactly
   the collision predicate ---- *)
Theorem C03_uniqueness_test_exact : forall t p ch d, WF t -> children_of p (forest_of t) = Some ch ->
  (collides t p d = true <-> sibling_with (forest_of t) p d 0).
Proof. exact collides_iff_sibling. Qed.
Print Assumptions C03_uniqueness_test_exact.

(* ---- refusal, route by route ---- *)
(* add_child(data) / add(data) *)
Theorem C03_add_refused : forall w ti p d explicit k b t id,
  WFw w -> get_tree w ti = Some t ->
  (match explicit with Some e => Some e | None => calc_id (calc t) d end) = Some id ->
  sibling_with (forest_of t) p id 0 ->
  (forall ch, children_of p (forest_of t) = Some ch -> before_ok (norm_before b) ch = true) ->
  fst (step w (OAdd ti p d explicit k b)) = Err EUnique.
Proof. exact add_refused. Qed.
Print Assumptions C03_add_refused.

(* whatever [before] is, a colliding add never succeeds *)
Theorem C03_add_never_succeeds : forall w ti p d explicit k b t id,
  WFw w -> get_tree w ti = Some t ->
  (match explicit with Some e => Some e | None => calc_id (calc t) d end) = Some id ->
  sibling_with (forest_of t) p id 0 ->
  exists e, fst (step w (OAdd ti p d explicit k b)) = Err e /\ (e = EUnique \/ e = EValue).
Proof. exact add_never_succeeds. Qed.
Print Assumptions C03_add_never_succeeds.

(* and no over-refusal: without a collision the add goes through *)
Theorem C03_add_accepted : forall w ti p d explicit k b t id ch,
  WFw w -> get_tree w ti = Some t -> children_of p (forest_of t) = Some ch ->
  (match explicit with Some e => Some e | None => calc_id (calc t) d end) = Some id ->
  ~ sibling_with (forest_of t) p id 0 -> before_ok (norm_before b) ch = true ->
  fst (step w (OAdd ti p d explicit k b)) = Ok [next w].
Proof. exact add_accepted. Qed.
Print Assumptions C03_add_accepted.

(* append_child / prepend_child / prepend_sibling / append_sibling *)
Theorem C03_append_child_refused : forall w ti n d explicit k t id,
  WFw w -> get_tree w ti = Some t ->
  (match explicit with Some e => Some e | None => calc_id (calc t) d end) = Some id ->
  sibling_with (forest_of t) n id 0 ->
  fst (step w (OShort ti n SAppendChild d explicit k)) = Err EUnique.
Proof. exact append_child_refused. Qed.
Print Assumptions C03_append_child_refused.

Theorem C03_prepend_child_refused : forall w ti n d explicit k t id,
  WFw w -> get_tree w ti = Some t ->
  (match explicit with Some e => Some e | None => calc_id (calc t) d end) = Some id ->
  sibling_with (forest_of t) n id 0 ->
  fst (step w (OShort ti n SPrependChild d explicit k)) = Err EUnique.
Proof. exact prepend_child_refused. Qed.
Print Assumptions C03_prepend_child_refused.

Theorem C03_prepend_sibling_refused : forall w ti n d explicit k t id p s,
  WFw w -> get_tree w ti = Some t ->
  parent_of n (forest_of t) = Some p -> get_node n (forest_of t) = Some s ->
  (match explicit with Some e => Some e | None => calc_id (calc t) d end) = Some id ->
  sibling_with (forest_of t) p id 0 ->
  fst (step w (OShort ti n SPrependSibling d explicit k)) = Err EUnique.
Proof. exact prepend_sibling_refused. Qed.
Print Assumptions C03_prepend_sibling_refused.

Theorem C03_append_sibling_refused : forall w ti n d explicit k t id p s,
  WFw w -> get_tree w ti = Some t ->
  parent_of n (forest_of t) = Some p -> get_node n (forest_of t) = Some s ->
  (match explicit with Some e => Some e | None => calc_id (calc t) d end) = Some id ->
  sibling_with (forest_of t) p id 0 ->
  fst (step w (OShort ti n SAppendSibling d explicit k)) = Err EUnique.
Proof. exact append_sibling_refused. Qed.
Print Assumptions C03_append_sibling_refused.

(* add_child(node) / copy_to(add_self=True): the copy's data_id is already below the parent;
   the side conditions exclude the refusals that come earlier with another error class
   (class mismatch, deep+data_id, deep copy into its own branch, unknown before) *)
Theorem C03_add_node_refused : forall w ti p sti src explicit k b deep t st s ch,
  WFw w -> get_tree w ti = Some t -> get_tree w sti = Some st ->
  get_node src (forest_of st) = Some s -> children_of p (forest_of t) = Some ch ->
  sibling_with (forest_of t) p (match explicit with Some e => e | None => rdid s end) 0 ->
  let dp := match deep with Some x => x | None => false end in
  typed t && negb (typed st) = false ->
  dp && (match explicit with Some _ => true | None => false end) = false ->
  dp && Nat.eqb ti sti && is_desc_or_self src p (forest_of st) = false ->
  before_ok (norm_before b) ch = true ->
  negb (typed t) && typed st = false ->
  fst (step w (OAddNode ti p sti src explicit k b deep)) = Err EUnique.
Proof. exact add_node_refused. Qed.
Print Assumptions C03_add_node_refused.

(* copy_to(add_self=False): one of the copied children collides *)
Theorem C03_copy_to_refused : forall w sti src ti target b deep t st chs c,
  WFw w -> get_tree w ti = Some t -> get_tree w sti = Some st ->
  children_of src (forest_of st) = Some chs -> In c chs ->
  sibling_with (forest_of t) target (rdid c) 0 ->
  fst (step w (OCopyTo sti src ti target false b deep)) = Err EUnique.
Proof. exact copy_to_refused. Qed.
Print Assumptions C03_copy_to_refused.

(* add(tree): some top node of the source tree collides *)
Theorem C03_add_tree_refused : forall w ti p sti b deep t st c,
  WFw w -> get_tree w ti = Some t -> get_tree w sti = Some st ->
  typed t && negb (typed st) = false -> In c (forest_of st) ->
  sibling_with (forest_of t) p (rdid c) 0 ->
  fst (step w (OAddTree ti p sti b deep)) = Err EUnique.
Proof. exact add_tree_refused. Qed.
Print Assumptions C03_add_tree_refused.

(* move_to under another parent that already has a child with the node's data_id *)
Theorem C03_move_refused : forall w ti n target b t s tch cur,
  WFw w -> get_tree w ti = Some t -> typed t = false ->
  get_node n (forest_of t) = Some s -> children_of target (forest_of t) = Some tch ->
  parent_of n (forest_of t) = Some cur -> cur <> target ->
  is_desc_or_self n target (forest_of t) = false -> before_ok (norm_before b) tch = true ->
  sibling_with (forest_of t) target (rdid s) n ->
  fst (step w (OMove ti n ti target b)) = Err EUnique.
Proof. exact move_refused. Qed.
Print Assumptions C03_move_refused.

(* remove(keep_children=True): a child's data_id occurs among the OTHER siblings of the removed node *)
Theorem C03_remove_keep_refused : forall w ti n t s q0 a b c o,
  WFw w -> get_tree w ti = Some t -> get_node n (forest_of t) = Some s ->
  node_loc n (forest_of t) = Some (q0, length a, a ++ s :: b) ->
  In c (rch s) -> In o (a ++ b) -> rdid o = rdid c ->
  fst (step w (ORemove ti n true false)) = Err EUnique.
Proof. exact remove_keep_refused. Qed.
Print Assumptions C03_remove_keep_refused.

(* set_data(data_id=e) on a single node / one clone only: a sibling already has e *)
Theorem C03_set_data_refused : forall w ti n t s q0 i l x e wcl,
  WFw w -> get_tree w ti = Some t -> get_node n (forest_of t) = Some s -> e <> rdid s ->
  node_loc n (forest_of t) = Some (q0, i, l) -> In x l -> rid x <> n -> rdid x = e ->
  (Nat.ltb 1 (length (idx_get (rdid s) (idx t))) = false \/ wcl = Some false) ->
  fst (step w (OSetData ti n None (Some e) wcl)) = Err EUnique.
Proof. exact set_data_refused. Qed.
Print Assumptions C03_set_data_refused.

(* set_data(data_id=e, with_clones=True): every re-keyed clone is checked against its own siblings *)
Theorem C03_set_data_clones_refused : forall w ti n t s m q0 i l x e,
  WFw w -> get_tree w ti = Some t -> get_node n (forest_of t) = Some s -> e <> rdid s ->
  Nat.ltb 1 (length (idx_get (rdid s) (idx t))) = true ->
  In m (idx_get (rdid s) (idx t)) -> node_loc m (forest_of t) = Some (q0, i, l) ->
  In x l -> rdid x = e -> ~ In (rid x) (idx_get (rdid s) (idx t)) ->
  fst (step w (OSetData ti n None (Some e) (Some true))) = Err EUnique.
Proof. exact set_data_clones_refused. Qed.
Print Assumptions C03_set_data_clones_refused.

(* set_data(new data): the data_id calculated from the new data is a sibling's *)
Theorem C03_set_data_by_data_refused : forall w ti n t s q0 i l x d e wcl,
  WFw w -> get_tree w ti = Some t -> get_node n (forest_of t) = Some s ->
  Z.eqb (d_obj d) (i_obj (rinfo s)) = false ->
  calc_id (calc t) d = Some e -> e <> rdid s ->
  (Nat.ltb 1 (length (idx_get (rdid s) (idx t))) = false \/ wcl = Some false) ->
  node_loc n (forest_of t) = Some (q0, i, l) -> In x l -> rid x <> n -> rdid x = e ->
  fst (step w (OSetData ti n (Some d) None wcl)) = Err EUnique.
Proof. exact set_data_by_data_refused. Qed.
Print Assumptions C03_set_data_by_data_refused.

(* rename(new str) whose calculated id is a sibling's *)
Theorem C03_rename_refused : forall w ti n t s q0 i l x d e,
  WFw w -> get_tree w ti = Some t -> get_node n (forest_of t) = Some s ->
  i_isstr (rinfo s) = true -> Z.eqb (d_obj d) (i_obj (rinfo s)) = false ->
  calc_id (calc t) d = Some e -> e <> rdid s ->
  Nat.ltb 1 (length (idx_get (rdid s) (idx t))) = false ->
  node_loc n (forest_of t) = Some (q0, i, l) -> In x l -> rid x <> n -> rdid x = e ->
  fst (step w (ORename ti n d)) = Err EUnique.
Proof. exact rename_refused. Qed.
Print Assumptions C03_rename_refused.

(* from_dict: the item about to be added collides below its parent -> the item, and with it the whole
   call ([from_dict_items] / [op_from_dict] propagate the first error), is refused.  (These two are lemmas
   about INTERNAL states of the call; the statements about the operation itself, duplicates at any depth, are
   C03_from_dict_duplicate_refused_anywhere / C03_from_dict_ok_dup_free at the end of this file.  Tree.load is the
   operation OLoad of Mut/MachineLoad.v, see the load section below.) *)
Theorem C03_from_dict_item_refused : forall w ti p d e ch t id,
  WFw w -> get_tree w ti = Some t ->
  (match e with Some x => Some x | None => calc_id (calc t) d end) = Some id ->
  sibling_with (forest_of t) p id 0 ->
  fst (from_dict_item ti p (DI d e ch) w) = Err EUnique.
Proof. exact from_dict_item_refused. Qed.
Print Assumptions C03_from_dict_item_refused.

Theorem C03_from_dict_error_propagates : forall ti p x l w err, fst (from_dict_item ti p x w) = Err err ->
  fst (from_dict_items ti p (x :: l) w) = Err err.
Proof. exact from_dict_items_err. Qed.
Print Assumptions C03_from_dict_error_propagates.

(* ---- non-vacuity: each route driven into a collision on a reachable world ---- *)
Definition c03_dd (z : Z) : dat := D z z z false [z].
Definition c03_ops : list op :=
  [ONewTree false None;
   OAdd 0 0 (c03_dd 10) None None BNone;     (* 1: did 10 *)
   OAdd 0 1 (c03_dd 20) None None BNone;     (* 2: did 20 under 1 *)
   OAdd 0 0 (c03_dd 20) None None BNone;     (* 3: did 20 top *)
   OAdd 0 3 (c03_dd 10) None None BNone;     (* 4: did 10 under 3 *)
   OAdd 0 0 (c03_dd 30) None None BNone].    (* 5: did 30 top *)
Definition c03_w : world := run c03_ops empty_world.
Example C03_nonvacuous :
  wf_world_b c03_w = true /\
  fst (step c03_w (OAdd 0 0 (c03_dd 10) None None BNone)) = Err EUnique /\            (* add *)
  fst (step c03_w (OShort 0 2 SAppendSibling (c03_dd 20) None None)) = Err EUnique /\ (* shortcut *)
  fst (step c03_w (OAddNode 0 0 0 2 None None BNone None)) = Err EUnique /\           (* node copy *)
  fst (step c03_w (OCopyTo 0 3 0 0 false BNone true)) = Err EUnique /\                (* copy_to children *)
  fst (step c03_w (OMove 0 2 0 0 BNone)) = Err EUnique /\                             (* move *)
  fst (step c03_w (ORemove 0 3 true false)) = Err EUnique /\                          (* un-nesting *)
  fst (step c03_w (OSetData 0 5 None (Some (DInt 20)) None)) = Err EUnique /\         (* set_data *)
  fst (step c03_w (OSetData 0 1 None (Some (DInt 30)) (Some true))) = Err EUnique /\    (* set_data with clones *)
  fst (step c03_w (OFromDict 0 5 [DI (c03_dd 7) None []; DI (c03_dd 7) None []])) = Err EUnique. (* from_dict *)
Proof. vm_compute. repeat split. Qed.

(* ====================================================================================== *)
(* The route "loading a file" (Mut/MachineLoad.v: [op_load] = the loop of Tree._from_list /
   TypedTree._from_list over the node list of the file; every entry goes through add(), i.e. through the
   uniqueness check of Tree._register).  The harness runs hand-made and generated node lists through
   Tree.load, the file-level collision oracle and this model (part [load] of harness/props/C03.py). *)
From NT Require Import MachineLoad MachineLoadProofs.

(* two entries with one data_id under one parent, whatever lies between them: the first (a data entry or a
   reference) puts a node with data_id [id] below the parent with index p, a later data entry names the same
   parent index and has the same data_id -> UniqueConstraintError, and no tree is added *)
Theorem C03_load_refused : forall w ty pre e1 mid p d ex k rest m0 w0 t0 n1 wa m2 w2 t2 id,
  let ti := length (trees w) in
  load_go ti pre (W (trees w ++ [TS [] [] [] ty None]) (next w)) [0] = (Ok m0, w0) -> WFw w ->
  get_tree w0 ti = Some t0 -> load_entry ti w0 m0 e1 = (Ok [n1], wa) -> entry_par e1 = p -> entry_did t0 m0 e1 = Some id ->
  load_go ti mid wa (m0 ++ [n1]) = (Ok m2, w2) -> get_tree w2 ti = Some t2 ->
  (match ex with Some x => Some x | None => calc_id (calc t2) d end) = Some id ->
  fst (op_load w ty (pre ++ e1 :: mid ++ LData p d ex k :: rest)) = Err EUnique /\
  trees (snd (op_load w ty (pre ++ e1 :: mid ++ LData p d ex k :: rest))) = trees w.
Proof. exact load_refused_general. Qed.
Print Assumptions C03_load_refused.

(* in terms of the route-independent collision predicate: the loop reaches an entry whose parent already has
   a child with the entry's data_id *)
Theorem C03_load_refused_entry : forall w ty pre p d ex k rest m1 w1 t P id,
  load_go (length (trees w)) pre (W (trees w ++ [TS [] [] [] ty None]) (next w)) [0] = (Ok m1, w1) ->
  WFw w1 -> get_tree w1 (length (trees w)) = Some t -> nth_error m1 p = Some P ->
  (match ex with Some e => Some e | None => calc_id (calc t) d end) = Some id ->
  sibling_with (forest_of t) P id 0 ->
  fst (op_load w ty (pre ++ LData p d ex k :: rest)) = Err EUnique /\
  trees (snd (op_load w ty (pre ++ LData p d ex k :: rest))) = trees w.
Proof. exact load_refused_data. Qed.
Print Assumptions C03_load_refused_entry.

(* a reference entry (a clone of an earlier entry) below a parent that already holds that data_id *)
Theorem C03_load_refused_reference : forall w ty pre p r rest m1 w1 t P src s,
  load_go (length (trees w)) pre (W (trees w ++ [TS [] [] [] ty None]) (next w)) [0] = (Ok m1, w1) ->
  WFw w1 -> get_tree w1 (length (trees w)) = Some t -> nth_error m1 p = Some P -> nth_error m1 r = Some src -> src <> 0 ->
  get_node src (forest_of t) = Some s ->
  sibling_with (forest_of t) P (rdid s) 0 ->
  fst (op_load w ty (pre ++ LRef p r :: rest)) = Err EUnique /\
  trees (snd (op_load w ty (pre ++ LRef p r :: rest))) = trees w.
Proof. exact load_refused_ref. Qed.
Print Assumptions C03_load_refused_reference.

(* the canonical bad file, closed form: two top-level entries with the same data / explicit data_id *)
Theorem C03_load_refused_pair : forall w ty d ex k k' rest, WFw w ->
  fst (op_load w ty (LData 0 d ex k :: LData 0 d ex k' :: rest)) = Err EUnique /\
  trees (snd (op_load w ty (LData 0 d ex k :: LData 0 d ex k' :: rest))) = trees w.
Proof. exact load_refused_pair. Qed.
Print Assumptions C03_load_refused_pair.

(* whatever makes a load fail, no tree is added and the existing trees are exactly as they were; a load that
   succeeds returns the index of the new tree and leaves the others alone *)
Theorem C03_load_failed_adds_no_tree : forall w ty doc,
  (forall tj, tj < length (trees w) -> get_tree (snd (op_load w ty doc)) tj = get_tree w tj) /\
  (forall e, fst (op_load w ty doc) = Err e -> trees (snd (op_load w ty doc)) = trees w) /\
  (forall r, fst (op_load w ty doc) = Ok r -> r = [length (trees w)]).
Proof. exact load_frame. Qed.
Print Assumptions C03_load_failed_adds_no_tree.

(* the result of a load is sibling-unique like every other state (C01_load_step) *)
Theorem C03_load_keeps_uniqueness : forall w ty doc t, WFw w -> In t (trees (snd (op_load w ty doc))) -> sib_unique (forest_of t).
Proof.
  intros w ty doc t H Ht. assert (X := WFw_step_x w (OLoad ty doc) H). cbn [step_x] in X.
  apply SU_sib_unique. apply wf_su. exact (proj1 (Forall_forall _ _) (ww_trees _ X) t Ht).
Qed.
Print Assumptions C03_load_keeps_uniqueness.

(* the three hand-made files of the corpus, on the model: a / b / a at top level; a > b and a reference to b
   below a again; a, b and a clone of a below b (must load: D12) *)
Definition c03_ld (z : Z) : dat := D z z z true [z].
Example C03_load_nonvacuous :
  fst (op_load empty_world false [LData 0 (c03_ld 97) None None; LData 0 (c03_ld 98) None None; LData 0 (c03_ld 97) None None]) = Err EUnique /\
  fst (op_load empty_world false [LData 0 (c03_ld 97) None None; LData 1 (c03_ld 98) None None; LRef 1 2]) = Err EUnique /\
  fst (op_load empty_world false [LData 0 (c03_ld 97) None None; LData 0 (c03_ld 98) None None; LRef 2 1]) = Ok [0] /\
  wf_world_b (snd (op_load empty_world false [LData 0 (c03_ld 97) None None; LData 0 (c03_ld 98) None None; LRef 2 1])) = true.
Proof. vm_compute. repeat split. Qed.

(* ====================================================================================== *)
(* from_dict at the level of the whole call.  C03_from_dict_item_refused speaks about ONE item in an arbitrary
   state; for the first item of a public call its hypothesis (the parent already has a child with that id)
   cannot hold, because Node.from_dict asserts that the parent has no children.  The public-call statement:
   the first item and any later item of the list carry one data_id, everything in between succeeded -> the
   whole call is refused with UniqueConstraintError and every tree is exactly as before (fix D48). *)
From NT Require Import RefusalMore.

Theorem C03_from_dict_duplicate_refused : forall w ti p x mid d e ch rest t r w2 id,
  WFw w -> get_tree w ti = Some t -> children_of p (forest_of t) = Some [] ->
  from_dict_items ti p (x :: mid) w = (Ok r, w2) ->
  item_did t x = Some id -> (match e with Some y => Some y | None => calc_id (calc t) d end) = Some id ->
  fst (step w (OFromDict ti p (x :: mid ++ DI d e ch :: rest))) = Err EUnique /\
  trees (snd (step w (OFromDict ti p (x :: mid ++ DI d e ch :: rest)))) = trees w.
Proof. exact from_dict_duplicate_refused. Qed.
Print Assumptions C03_from_dict_duplicate_refused.

(* ====================================================================================== *)
(* Audit, cross-cutting bridges.
   (1) The invariant has several cousins across the development.  Here, the forms used by the mutation layer:
       the inductive [SU], the path-free [sib_unique], and the row form "no two rows with equal (parent, data_id)"
       (RowsSU), for every well-formed tree.  The Layer-A cousins are bridged in their own files:
       [DictListProofs.sibuniq_f f <-> WF.SU f] is C14_sibuniq_is_C03_invariant, [SerIsoProofs.sib_unique] (convertible
       with [WF.sib_unique]) and [ids_ok] from WF is SerAuditC05.WF_tree_side_conditions, [DiffProofs.sib_unique]
       (uniqueness of == classes, a different predicate of the same name) is related in Properties/C11.v.
   (2) the invariant over the guarded run the correspondence evaluates. *)
From NT Require Import SurgeryFacts RowsSU CaseMut CaseMutFacts.

Theorem C03_invariant_forms : forall t, WF t ->
  SU (forest_of t) /\ sib_unique (forest_of t) /\ NoDup (map r_pd (rows 0 (forest_of t))) /\
  (forall f, NoDup (ids f) -> ~ In 0 (ids f) -> (SU f <-> sib_unique f) /\ (SU f <-> NoDup (map r_pd (rows 0 f)))).
Proof.
  intros t H. assert (S := wf_su t H). split; [exact S|]. split; [now apply SU_sib_unique|]. split.
  - apply (SU_rows (forest_of t)); [apply (wf_nodup t H)|apply (wf_pos t H)|exact S].
  - intros f N Z. split; [apply SU_sib_unique|now apply SU_rows].
Qed.
Print Assumptions C03_invariant_forms.

Theorem C03_reachable_chk : forall ops t, In t (trees (run_chk ops empty_world)) -> sib_unique (forest_of t).
Proof.
  intros ops t Ht. destruct (run_chk_reachable ops empty_world) as (ops' & _ & E). rewrite E in Ht. exact (C03_reachable ops' t Ht).
Qed.
Print Assumptions C03_reachable_chk.

(* a refusal observed on the guarded step is the machine's refusal: EUnique never comes from the guard *)
Theorem C03_step_chk_unique_is_step : forall w o w', step_chk w o = (Err EUnique, w') -> step w o = (Err EUnique, w').
Proof. intros w o w' H. destruct (step_chk_err w o EUnique w' H) as [X|(_ & X & _)]; [exact X|discriminate]. Qed.
Print Assumptions C03_step_chk_unique_is_step.

(* ====================================================================================== *)
(* Audit C03 (high): the from_dict route as a theorem about the OPERATION, duplicates at ANY depth.
   [dup_free cs items]: no two sibling items at any depth resolve to one data_id; [ids_def]: every item's id is
   computable (explicit, or the callback answers).  A model that swallows a nested / later / op-level error
   (audit T2.v: fdi_bad, op_from_dict_bad) violates C03_from_dict_ok_dup_free on [DI 5 [DI 7; DI 7]]. *)
From NT Require Import FromDictDup.

Theorem C03_from_dict_ok_dup_free : forall w ti p items r w', WFw w -> step w (OFromDict ti p items) = (Ok r, w') ->
  exists t, get_tree w ti = Some t /\ dup_free (calc t) items.
Proof. exact from_dict_ok_dup_free. Qed.
Print Assumptions C03_from_dict_ok_dup_free.

Theorem C03_from_dict_error_class : forall w ti p items x w' t, WFw w -> get_tree w ti = Some t ->
  children_of p (forest_of t) = Some [] -> step w (OFromDict ti p items) = (Err x, w') ->
  (x = EUnique \/ (x = ECrash /\ forallb (ids_def (calc t)) items = false)) /\ trees w' = trees w.
Proof. exact from_dict_error_class. Qed.
Print Assumptions C03_from_dict_error_class.

Theorem C03_from_dict_duplicate_refused_anywhere : forall w ti p items t, WFw w -> get_tree w ti = Some t ->
  children_of p (forest_of t) = Some [] -> forallb (ids_def (calc t)) items = true -> ~ dup_free (calc t) items ->
  fst (step w (OFromDict ti p items)) = Err EUnique /\ trees (snd (step w (OFromDict ti p items))) = trees w.
Proof. exact from_dict_duplicate_refused_anywhere. Qed.
Print Assumptions C03_from_dict_duplicate_refused_anywhere.

Theorem C03_tree_from_dict_ok_dup_free : forall w items r w', WFw w -> step w (OTreeFromDict items) = (Ok r, w') -> dup_free None items.
Proof. exact tree_from_dict_ok_dup_free. Qed.
Print Assumptions C03_tree_from_dict_ok_dup_free.

Theorem C03_tree_from_dict_duplicate_refused_anywhere : forall w items, WFw w -> ~ dup_free None items ->
  fst (step w (OTreeFromDict items)) = Err EUnique /\ trees (snd (step w (OTreeFromDict items))) = trees w.
Proof. exact tree_from_dict_duplicate_refused_anywhere. Qed.
Print Assumptions C03_tree_from_dict_duplicate_refused_anywhere.

(* the audit's witness: a duplicate one level down *)
Example C03_from_dict_nested_nonvacuous :
  let dd z := D z z z false [z] in
  let items := [DI (dd 5%Z) None [DI (dd 7%Z) None []; DI (dd 7%Z) None []]] in
  let w := run [ONewTree false None; OAdd 0 0 (dd 1%Z) None None BNone] empty_world in
  ~ dup_free None items /\ fst (step w (OFromDict 0 1 items)) = Err EUnique /\ fst (step w (OTreeFromDict items)) = Err EUnique /\
  dup_free None [DI (dd 5%Z) None [DI (dd 7%Z) None []; DI (dd 8%Z) None [DI (dd 7%Z) None []]]].
Proof.
  cbv zeta. split; [|split; [vm_compute; reflexivity|split; [vm_compute; reflexivity|]]].
  - intros H. inversion H as [l N K]; subst. specialize (K _ (or_introl eq_refl)). cbn [item_kids] in K.
    inversion K as [l' N' _]; subst. cbn in N'. inversion N' as [|? ? Hn _]; subst. apply Hn. now left.
  - repeat (constructor; cbn; [repeat constructor; cbn; intuition discriminate|]; intros it [<-|Hi]; cbn [item_kids]; try contradiction).
    all: try (destruct Hi as [<-|[]]; cbn [item_kids]).
    all: repeat (constructor; cbn; [repeat constructor; cbn; intuition discriminate|]; intros it' Hi'; try contradiction; destruct Hi' as [<-|[]]; cbn [item_kids]).
    all: try (constructor; cbn; [constructor|intros ? []]).
Qed.

(* ====================================================================================== *)
(* Audit C03 (medium): no over-refusal.  Only C03_add_accepted stated the converse; D12 was an over-refusal of
   add(node).  Every uniqueness refusal of add(node) / move_to has one of the documented causes; and the calls the
   library documents as valid are accepted (C04_progress: [valid_op], which for add(node), remove(keep_children),
   set_data spells "no collision" with the library's own test, exact by C03_uniqueness_test_exact). *)
From NT Require Import Progress.

Theorem C03_add_node_unique_cause : forall w ti p sti src e k b deep,
  WFw w -> fst (step w (OAddNode ti p sti src e k b deep)) = Err EUnique ->
  exists t st s, get_tree w ti = Some t /\ get_tree w sti = Some st /\ get_node src (forest_of st) = Some s /\
    ((ti = sti /\ parent_of src (forest_of st) = Some p) \/
     (exists x, e = Some x /\ x <> rdid s) \/
     sibling_with (forest_of t) p (rdid s) 0).
Proof. exact add_node_unique_cause. Qed.
Print Assumptions C03_add_node_unique_cause.

Theorem C03_move_unique_cause : forall w ti n tti target b,
  fst (step w (OMove ti n tti target b)) = Err EUnique ->
  exists t s cur tch c, get_tree w ti = Some t /\ get_node n (forest_of t) = Some s /\ parent_of n (forest_of t) = Some cur /\
    cur <> target /\ children_of target (forest_of t) = Some tch /\ In c tch /\ rdid c = rdid s.
Proof. exact move_unique_cause. Qed.
Print Assumptions C03_move_unique_cause.

Theorem C03_add_node_accepted : forall w ti p sti src e k b deep, valid_add_node w ti p sti src e b deep = true ->
  fst (step w (OAddNode ti p sti src e k b deep)) = Ok [next w].
Proof. exact add_node_progress. Qed.
Print Assumptions C03_add_node_accepted.

(* ====================================================================================== *)
(* Audit C03 (medium-low): refusing shapes that matched no theorem above -
   OSetData with new data (id recomputed through the callback) / new data AND an explicit id / with_clones=True,
   ORemove with keep_children=True and with_clones=True.  (OTreeFromDict and nested OFromDict: section above.) *)
Theorem C03_set_data_refused_any : forall w ti n d e wcl t s did' x q0 i l y,
  WFw w -> get_tree w ti = Some t -> get_node n (forest_of t) = Some s -> (d <> None \/ e <> None) ->
  sd_did' t (sd_new_data s d) e = Some did' -> sd_new_did s did' = Some x ->
  node_loc n (forest_of t) = Some (q0, i, l) -> In y l -> rid y <> n -> rdid y = x ->
  (Nat.ltb 1 (length (idx_get (rdid s) (idx t))) = false \/ wcl = Some false) ->
  fst (step w (OSetData ti n d e wcl)) = Err EUnique.
Proof. exact set_data_refused_any. Qed.
Print Assumptions C03_set_data_refused_any.

Theorem C03_set_data_refused_any_group : forall w ti n d e t s did' x m q0 i l y,
  WFw w -> get_tree w ti = Some t -> get_node n (forest_of t) = Some s -> (d <> None \/ e <> None) ->
  sd_did' t (sd_new_data s d) e = Some did' -> sd_new_did s did' = Some x ->
  Nat.ltb 1 (length (idx_get (rdid s) (idx t))) = true ->
  In m (idx_get (rdid s) (idx t)) -> node_loc m (forest_of t) = Some (q0, i, l) ->
  In y l -> rdid y = x -> ~ In (rid y) (idx_get (rdid s) (idx t)) ->
  fst (step w (OSetData ti n d e (Some true))) = Err EUnique.
Proof. exact set_data_refused_any_group. Qed.
Print Assumptions C03_set_data_refused_any_group.

Theorem C03_remove_refused_iff : forall w ti n (keep wc : bool) t d, get_tree w ti = Some t -> did_of n (forest_of t) = Some d ->
  let victims := if wc then filter (fun c => negb (Nat.eqb c n)) (idx_get d (idx t)) ++ [n] else [n] in
  (fst (step w (ORemove ti n keep wc)) = Err EUnique <->
   keep = true /\ exists v q0 i l, In v victims /\ node_loc v (forest_of t) = Some (q0, i, l) /\
                   ~ NoDup (map rdid (flat_map (contract_t victims) l))) /\
  (fst (step w (ORemove ti n keep wc)) = Err EUnique -> snd (step w (ORemove ti n keep wc)) = w) /\
  (fst (step w (ORemove ti n keep wc)) = Err EUnique \/ fst (step w (ORemove ti n keep wc)) = Ok []).
Proof. exact remove_refused_iff. Qed.
Print Assumptions C03_remove_refused_iff.

Example C03_unmatched_shapes_nonvacuous :
  let dd z := D z z z false [z] in
  (* 1 = a(3 = c), 2 = b(4 = c', 5 = x): clones 3,4 of c *)
  let w := run [ONewTree false None; OAdd 0 0 (dd 1%Z) None None BNone; OAdd 0 0 (dd 2%Z) None None BNone;
                OAdd 0 1 (dd 3%Z) None None BNone; OAddNode 0 2 0 3 None None BNone None; OAdd 0 2 (dd 5%Z) None None BNone;
                OAdd 0 0 (dd 3%Z) None None BNone] empty_world in
  fst (step w (ORemove 0 1 true true)) = Err EUnique /\                              (* c would come up next to the top-level c *)
  fst (step w (OSetData 0 3 (Some (dd 5%Z)) None (Some true))) = Err EUnique /\      (* the clone below b would sit next to x *)
  fst (step w (OSetData 0 5 (Some (dd 9%Z)) (Some (DInt 3)) None)) = Err EUnique.    (* new data and an explicit id *)
Proof. vm_compute. repeat split. Qed.

(* Audit C03 (low): the invariant also over histories that contain Tree.load ([run_x], Mut/MachineLoad.v) *)
Theorem C03_reachable_load : forall ops t, In t (trees (run_x ops empty_world)) -> sib_unique (forest_of t).
Proof.
  intros ops t Ht. assert (X := WFw_run_x ops empty_world WFw_empty). destruct X as [X _ _ _]. rewrite Forall_forall in X.
  apply SU_sib_unique. apply wf_su. now apply X.
Qed.
Print Assumptions C03_reachable_load.
