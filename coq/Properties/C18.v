(* C18 - snapshot operations honour the tree lock.

   Layer C: threads = lists of Acq | Rel | Read | Write, state = (owner, depth, remaining
   programs, version, history), a schedule = ANY list of thread ids (a tick of a blocked or
   finished thread is a no-op, so unfair schedules are included).  All theorems are for every
   number of threads, every family of bracketed programs and every schedule.  Statements only;
   proofs are in theories/Lock/RLockProofs.v and SkeletonProofs.v.

   NOT verified (modelled): threading.RLock itself, the GIL, atomicity of a single Python read. *)
From Coq Require Import List ZArith Bool Arith.
From NTGen Require Import Generated.
From NT Require Import Sx RLock Skeleton RLockProofs SkeletonProofs NonReentrant CaseLock.
Import ListNotations.

(* ---------------- the machine, all schedules ---------------- *)
(* Hypothesis on the family of threads: [all_disciplined] = the writers' discipline of the
   property statement ("mutate only inside `with tree:`": Acq/Rel balanced, every Write under
   the lock, Reads anywhere).  A snapshot operation is a thread that is moreover [bracketed]
   (its Reads under the lock too), Write-free and [one_section]. *)

Theorem C18_bracketed_is_disciplined : forall ps, all_bracketed ps -> all_disciplined ps.
Proof. exact all_bracketed_disciplined. Qed.
Print Assumptions C18_bracketed_is_disciplined.

(* the history of a thread is a prefix of its program: nothing else is ever executed on its behalf *)
Theorem C18_trace_is_program : forall (ps : list prog) (sched : list tid) (t : tid),
  all_disciplined ps ->
  proj t (hist (run sched (init ps))) ++ prog_of (run sched (init ps)) t = nth t ps [].
Proof. exact trace_is_program. Qed.
Print Assumptions C18_trace_is_program.

(* every Write and Rel happens while its thread owns the lock; every executed Acq found the lock
   free or already its own; every Read of a bracketed thread happens while it owns the lock *)
Theorem C18_reads_under_lock : forall ps sched e,
  all_disciplined ps -> In e (hist (run sched (init ps))) ->
  (e_ev e = EWrite \/ e_ev e = ERel -> e_owner e = Some (e_tid e) /\ 0 < e_depth e) /\
  (e_ev e = EAcq -> (e_owner e = None /\ e_depth e = 0) \/ (e_owner e = Some (e_tid e) /\ 0 < e_depth e)) /\
  (e_ev e = ERead -> bracketed (nth (e_tid e) ps []) = true -> e_owner e = Some (e_tid e) /\ 0 < e_depth e).
Proof. exact events_under_lock. Qed.
Print Assumptions C18_reads_under_lock.

(* between the outermost Acq of t (entry a) and its matching outermost Rel the lock is t's and
   every executed event other than a Read is t's own: no Write (no Acq, no Rel) of another thread;
   the version moves by t's own Writes only *)
Theorem C18_no_foreign_write_in_section : forall ps sched t l1 a l2 e l3,
  all_disciplined ps ->
  hist (run sched (init ps)) = l1 ++ a :: l2 ++ e :: l3 ->
  is_oacq t a -> (forall x, In x l2 -> ~ is_orel t x) ->
  e_owner a = None /\
  (forall x, In x l2 -> e_owner x = Some t /\ (e_ev x <> ERead -> e_tid x = t)) /\
  e_owner e = Some t /\ (e_ev e <> ERead -> e_tid e = t) /\ e_ver e = e_ver a + wcount l2.
Proof. exact section_exclusive. Qed.
Print Assumptions C18_no_foreign_write_in_section.

(* a Write-free thread sees, throughout a critical section, the version it found when it took
   the free lock *)
Theorem C18_section_one_version : forall ps sched t l1 a l2 e l3,
  all_disciplined ps -> writes (nth t ps []) = false ->
  hist (run sched (init ps)) = l1 ++ a :: l2 ++ e :: l3 ->
  is_oacq t a -> (forall x, In x l2 -> ~ is_orel t x) ->
  e_ver e = e_ver a /\ e_owner a = None /\ e_owner e = Some t.
Proof. exact section_one_version. Qed.
Print Assumptions C18_section_one_version.

(* every event executed under the lock lies in a section opened while the lock was free *)
Theorem C18_owned_event_in_section : forall ps sched t l0 e l3,
  all_disciplined ps -> hist (run sched (init ps)) = l0 ++ e :: l3 -> e_owner e = Some t ->
  exists l1 a l2, l0 = l1 ++ a :: l2 /\ is_oacq t a /\ forall x, In x l2 -> ~ is_orel t x.
Proof. exact owned_in_section. Qed.
Print Assumptions C18_owned_event_in_section.

(* a snapshot execution (bracketed, no Write, at most one outermost section) among disciplined
   threads: ALL its reads happen under the lock and see ONE version - the version of a moment at
   which the lock was free *)
Theorem C18_snapshot_one_version : forall ps sched t e1,
  all_disciplined ps ->
  bracketed (nth t ps []) = true -> writes (nth t ps []) = false -> one_section (nth t ps []) = true ->
  In e1 (hist (run sched (init ps))) -> e_tid e1 = t -> e_ev e1 = ERead ->
  exists a, In a (hist (run sched (init ps))) /\ is_oacq t a /\ e_owner a = None /\
    forall e2, In e2 (hist (run sched (init ps))) -> e_tid e2 = t -> e_ev e2 = ERead ->
      e_owner e2 = Some t /\ e_ver e2 = e_ver a.
Proof. exact snapshot_one_version. Qed.
Print Assumptions C18_snapshot_one_version.

Theorem C18_sections_bounded : forall ps sched t, all_disciplined ps ->
  length (filter (is_oacqb t) (hist (run sched (init ps)))) <= nsec 0 (nth t ps []).
Proof. exact sections_bounded. Qed.
Print Assumptions C18_sections_bounded.

(* re-entrancy: the owner is never blocked (whatever its next event is, nested Acq included),
   and its tick is a real step *)
Theorem C18_owner_never_blocked : forall ps sched t,
  all_disciplined ps -> owner (run sched (init ps)) = Some t ->
  enabled (run sched (init ps)) t = true /\
  exists e r, next (run sched (init ps)) t = Some (e, r) /\
    hist (step t (run sched (init ps))) =
      hist (run sched (init ps)) ++ [E t e (ver (run sched (init ps))) (Some t) (depth (run sched (init ps)))].
Proof.
  intros ps sched t F O. pose proof (owner_enabled ps _ t (inv_reach ps sched F) O) as En.
  split; [exact En|]. destruct (enabled_step _ t En) as [e [r [N [H _]]]]. rewrite O in H. eauto.
Qed.
Print Assumptions C18_owner_never_blocked.

(* nesting returns the depth to 0: a finished thread does not hold the lock, and when all
   threads are finished the lock is free *)
Theorem C18_depth_returns_to_zero : forall ps sched,
  all_disciplined ps ->
  (forall t, prog_of (run sched (init ps)) t = [] -> owner (run sched (init ps)) <> Some t) /\
  (finished (run sched (init ps)) = true ->
   owner (run sched (init ps)) = None /\ depth (run sched (init ps)) = 0).
Proof.
  intros ps sched F. split.
  - intros t. exact (done_thread_released ps _ t (inv_reach ps sched F)).
  - exact (finished_lock_free ps _ (inv_reach ps sched F)).
Qed.
Print Assumptions C18_depth_returns_to_zero.

(* no deadlock: as long as some thread is unfinished some thread is enabled; an enabled tick
   executes one event; hence every schedule can be extended to one that completes all threads *)
Theorem C18_no_deadlock : forall ps sched,
  all_disciplined ps -> finished (run sched (init ps)) = false ->
  exists t, enabled (run sched (init ps)) t = true.
Proof. intros ps sched F. exact (no_deadlock ps _ (inv_reach ps sched F)). Qed.
Print Assumptions C18_no_deadlock.

Theorem C18_completion : forall ps sched, all_disciplined ps ->
  exists more, finished (run (sched ++ more) (init ps)) = true /\
               owner (run (sched ++ more) (init ps)) = None /\ depth (run (sched ++ more) (init ps)) = 0.
Proof. exact every_schedule_extends_to_completion. Qed.
Print Assumptions C18_completion.

(* a tick that is not enabled changes nothing (blocked threads wait, they do not spin the state) *)
Theorem C18_blocked_is_noop : forall s t, enabled s t = false -> step t s = s.
Proof. exact disabled_step. Qed.
Print Assumptions C18_blocked_is_noop.

(* ---------------- the generated skeletons ---------------- *)

(* obligations about the GENERATED values (finite: vm_compute is a proof).  Moving a read of the
   tree out of `with self:` in the source, or releasing early, makes the first one false. *)
Theorem C18_generated_table_bracketed : table_bracketed SNAPSHOT_PROGS = true.
Proof. vm_compute. reflexivity. Qed.
Print Assumptions C18_generated_table_bracketed.

Theorem C18_generated_table_one_section : table_onesec SNAPSHOT_PROGS = true.
Proof. vm_compute. reflexivity. Qed.
Print Assumptions C18_generated_table_one_section.

(* `with tree:` is acquire/release of a threading.RLock created once in Tree.__init__ *)
Theorem C18_generated_lock_facts :
  LOCK_IS_RLOCK = true /\ LOCK_ACQUIRE_OK = true /\ LOCK_RELEASE_OK = true.
Proof. vm_compute. repeat split. Qed.
Print Assumptions C18_generated_lock_facts.

(* for each generated program by name (so that the failing one is named when the source changes) *)
Theorem C18_generated_progs_bracketed :
  forallb (brkC 0) prog_tree_copy = true /\ forallb (brkC 0) prog_tree_copy_to = true /\
  forallb (brkC 0) prog_tree_filtered = true /\ forallb (brkC 0) prog_tree_to_dict_list = true /\
  forallb (brkC 0) prog_tree_save = true /\ forallb (brkC 0) prog_tree_to_dotfile = true /\
  forallb (brkC 0) prog_typed_save = true /\ forallb (brkC 0) prog_dot_tree_to_dotfile = true.
Proof. vm_compute. repeat split. Qed.
Print Assumptions C18_generated_progs_bracketed.

(* ALL finite unfoldings (recursion `self.save(fp)`, dynamic dispatch of `save` to Tree or
   TypedTree included) of every path of every generated operation are snapshot programs *)
Theorem C18_every_unfolding_is_snapshot : forall e p q,
  In e SNAPSHOT_PROGS -> In p (snd e) -> exp SNAPSHOT_PROGS p q ->
  bracketed q = true /\ one_section q = true /\ writes q = false.
Proof.
  intros e p q. apply exp_snapshot.
  - exact C18_generated_table_bracketed.
  - exact C18_generated_table_one_section.
Qed.
Print Assumptions C18_every_unfolding_is_snapshot.

(* the enumerator used by the correspondence check (CaseLock.member) only lists unfoldings *)
Theorem C18_enumerator_sound : forall tbl fuel p q, In q (expansions tbl fuel p) -> exp tbl p q.
Proof. exact expansions_sound. Qed.
Print Assumptions C18_enumerator_sound.

(* the end-to-end statement: a generated snapshot operation (any unfolding of any of its paths)
   running as thread t among ARBITRARY disciplined threads (writers that mutate only inside
   `with tree:`, other snapshots, unlocked readers), under ANY schedule: all its reads are made
   as owner of the lock and see one version, found when the lock was free *)
Theorem C18_snapshot_operations_honour_lock : forall e p q ps sched t e1,
  In e SNAPSHOT_PROGS -> In p (snd e) -> exp SNAPSHOT_PROGS p q ->
  all_disciplined ps -> nth t ps [] = q ->
  In e1 (hist (run sched (init ps))) -> e_tid e1 = t -> e_ev e1 = ERead ->
  exists a, In a (hist (run sched (init ps))) /\ is_oacq t a /\ e_owner a = None /\
    forall e2, In e2 (hist (run sched (init ps))) -> e_tid e2 = t -> e_ev e2 = ERead ->
      e_owner e2 = Some t /\ e_ver e2 = e_ver a.
Proof.
  intros e p q ps sched t e1 He Hp Hq F Ht. destruct (C18_every_unfolding_is_snapshot e p q He Hp Hq) as [B [O W]].
  apply snapshot_one_version; [exact F|rewrite Ht; exact B|rewrite Ht; exact W|rewrite Ht; exact O].
Qed.
Print Assumptions C18_snapshot_operations_honour_lock.

(* ---------------- why LOCK_IS_RLOCK matters ---------------- *)

(* the same machine with a plain lock (Acq enabled only when free): a thread that reaches an Acq
   while it owns the lock stays there under EVERY schedule, holding the lock for ever *)
Theorem C18_plain_lock_self_deadlock : forall t sched s, self_blocked t s ->
  self_blocked t (run_nr sched s) /\ finished (run_nr sched s) = false.
Proof. exact nr_self_deadlock. Qed.
Print Assumptions C18_plain_lock_self_deadlock.

(* ... which is where the generated unfolding of TypedTree.save gets after two ticks, while the
   re-entrant machine completes it *)
Example C18_plain_lock_deadlocks_typed_save :
  let p := [EAcq; ERead; EAcq; ERead; ERel; ERel] in
  In p (flat_map (expansions SNAPSHOT_PROGS 2) prog_typed_save) /\
  self_blocked 0 (run_nr [0; 0] (init [p])) /\
  finished (run [0; 0; 0; 0; 0; 0] (init [p])) = true.
Proof.
  split; [vm_compute; tauto|]. split; [|vm_compute; reflexivity].
  split; [vm_compute; reflexivity|]. eexists. vm_compute. reflexivity.
Qed.

(* ---------------- non-vacuity ---------------- *)

(* every generated operation has unfoldings; e.g. TypedTree.save unfolds to the nested program *)
Example C18_nonvacuous_unfoldings :
  forallb (fun i => negb (match op_expansions SNAPSHOT_PROGS 4 i with [] => true | _ => false end))
          (seq 0 (length SNAPSHOT_PROGS)) = true /\
  In [EAcq; ERead; EAcq; ERead; ERel; ERel] (flat_map (expansions SNAPSHOT_PROGS 2) prog_typed_save).
Proof. split; [vm_compute; reflexivity|]. vm_compute. tauto. Qed.

(* a writer (two Writes in one section), a nested writer and two snapshot readers under an
   unfair schedule: hypotheses hold, readers are blocked while the writer is inside, each reader
   sees one committed version (0, 2 or 3), nothing deadlocks *)
Example C18_nonvacuous_schedule :
  let ps := [[EAcq; EWrite; EWrite; ERel]; [EAcq; ERead; EAcq; ERead; ERel; ERel];
             [EAcq; EAcq; EWrite; ERel; ERel]; [EAcq; ERead; ERead; ERel]] in
  let s := run [0; 0; 1; 3; 1; 0; 1; 1; 2; 0;  1; 1; 1; 3; 1; 1; 1;  2; 2; 3; 2; 2; 2;  3; 3; 3; 3] (init ps) in
  all_bracketed ps /\ all_disciplined ps /\ writes (nth 1 ps []) = false /\ one_section (nth 1 ps []) = true /\
  finished s = true /\ owner s = None /\ ver s = 3 /\
  map e_ver (filter (fun e => (e_tid e =? 1) && ev_eqb (e_ev e) ERead) (hist s)) = [2; 2] /\
  map e_ver (filter (fun e => (e_tid e =? 3) && ev_eqb (e_ev e) ERead) (hist s)) = [3; 3].
Proof. vm_compute. repeat split; repeat constructor. Qed.

(* the hypotheses really are weaker than "everybody brackets everything": a writer, a snapshot
   and a thread that reads WITHOUT the lock.  The family is disciplined (not all bracketed); the
   unlocked reader sees the torn version 1, the snapshot - blocked meanwhile - sees 2 only *)
Example C18_nonvacuous_unlocked_reader :
  let ps := [[EAcq; EWrite; EWrite; ERel]; [EAcq; ERead; ERead; ERel]; [ERead; ERead]] in
  let s := run [0; 0; 1; 2; 1; 0; 0; 1; 1; 2; 1; 1] (init ps) in
  all_disciplined ps /\ ~ all_bracketed ps /\ bracketed (nth 1 ps []) = true /\ finished s = true /\
  map e_ver (filter (fun e => (e_tid e =? 1) && ev_eqb (e_ev e) ERead) (hist s)) = [2; 2] /\
  map (fun e => (e_ver e, e_owner e)) (filter (fun e => (e_tid e =? 2) && ev_eqb (e_ev e) ERead) (hist s))
    = [(1, Some 0); (2, Some 1)].
Proof.
  split; [repeat constructor|]. split; [|vm_compute; repeat split].
  intros H. unfold all_bracketed in H. rewrite Forall_forall in H.
  specialize (H [ERead; ERead]). cbn in H. assert (false = true); [apply H; tauto|discriminate].
Qed.

(* D38, the unrepaired TypedTree.save = [Read; Acq; Read; Rel]: not bracketed, and there IS a
   schedule in which its two reads see different versions, one of them torn (inside the
   writer's critical section) - so the hypothesis `bracketed` cannot be dropped *)
Example C18_D38_unbracketed_read_refuted :
  let ps := [[EAcq; EWrite; EWrite; ERel]; [ERead; EAcq; ERead; ERel]] in
  let s := run [0; 0; 1; 1; 0; 0; 1; 1; 1] (init ps) in
  bracketed (nth 1 ps []) = false /\ finished s = true /\
  map (fun e => (e_ver e, e_owner e)) (filter (fun e => (e_tid e =? 1) && ev_eqb (e_ev e) ERead) (hist s))
    = [(1, Some 0); (2, Some 1)].
Proof. vm_compute. repeat split. Qed.

(* the correspondence entry point (importing CaseLock here also makes `make Properties/C18.vo`
   rebuild it whenever the generated facts change): the trace recorded for TypedTree.save(path)
   is an unfolding of the generated skeleton, bracketed, one section, no write; with a writer
   parked after 1 of 3 mutations the reader is blocked and then sees version 3 only *)
Example C18_run18_example :
  run18 (CPark [116; 121; 112; 101; 100; 95; 115; 97; 118; 101]%Z [0; 2; 0; 0; 2; 1; 1; 1]%Z 1 2)
  = L [L [A 1; A 1; A 1; A 0]; L [A 0; A 1; L [A 3]; A 1]]%Z.
Proof. vm_compute. reflexivity. Qed.

(* the generated facts this property uses were lifted from the current source *)
Theorem C18_generated_facts_present : GEN_LOCK_OK = true.
Proof. reflexivity. Qed.
Print Assumptions C18_generated_facts_present.
