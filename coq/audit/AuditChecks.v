(* The counter-models of the independent audit (/tmp/audit/C04/T1.v, C02/T1.v, C03/T2.v) against the strengthened
   theorems: each wrong model satisfied the old statement; it does NOT satisfy the new one.
   Not part of the build; compile with
     coqc -Q theories NT -Q gen NTGen -Q Properties NTProp audit/AuditChecks.v *)
From Coq Require Import List ZArith Bool Arith Lia.
From NT Require Import Sx Rose Surgery SurgeryFacts Machine WF MachineFacts Effects PreserveRelabel Lookup RefusalMore.
Import ListNotations.

(* ---- C04/T1.v, C02/T1.v: a set_data that does nothing ---- *)
Definition bad_set_data (w : world) (ti n : nat) (d : option dat) (e : option did) (wc : option bool) : res * world :=
  match get_tree w ti with
  | None => (Err EModel, w)
  | Some t => match get_node n (forest_of t) with
              | None => (Err EModel, w)
              | Some _ => (Ok [], w)
              end
  end.

Definition dd (z : Z) : dat := D z z z false [z].
Definition w1 : world := run [ONewTree false None; OAdd 0 0 (dd 10) None None BNone] empty_world.

(* the statement of C02_set_data_id with the wrong function in place of [step w (OSetData ..)] is FALSE *)
Theorem noop_set_data_excluded_by_C02_set_data_id :
  ~ (forall w ti n x wc r w' t s, WFw w -> get_tree w ti = Some t -> get_node n (forest_of t) = Some s ->
       x <> rdid s -> bad_set_data w ti n None (Some x) wc = (Ok r, w') ->
       exists t', get_tree w' ti = Some t' /\ did_of n (forest_of t') = Some x /\
                  In n (lk_find_all_did t' x) /\ ~ In n (lk_find_all_did t' (rdid s))).
Proof.
  intros K. assert (W : WFw w1) by (apply wf_world_b_WFw; vm_compute; reflexivity).
  destruct (K w1 0 1 (DInt 77) None [] w1 _ _ W eq_refl eq_refl) as (t' & Gt' & Dn & _); [vm_compute; discriminate|reflexivity|].
  vm_compute in Gt'. injection Gt' as <-. vm_compute in Dn. discriminate.
Qed.

(* ... and so is the statement of C04_set_data_exact *)
Theorem noop_set_data_excluded_by_C04_set_data_exact :
  ~ (forall w ti n d e wc r w', bad_set_data w ti n d e wc = (Ok r, w') ->
     exists t s did', get_tree w ti = Some t /\ get_node n (forest_of t) = Some s /\
       sd_did' t (sd_new_data s d) e = Some did' /\ r = [] /\
       let nd := sd_new_data s d in
       let ne := sd_new_did s did' in
       let cur := idx_get (rdid s) (idx t) in
       let hc := Nat.ltb 1 (length cur) in
       let wcb := match wc with Some true => true | _ => false end in
       let setd := fun inf => match nd with Some x => set_dat_i x inf | None => inf end in
       hc && (match wc with None => true | _ => false end) = false /\
       match ne, nd with
       | Some x, _ =>
           exists t', get_tree w' ti = Some t' /\
             forest_of t' = relabel (if hc && wcb then cur else [n]) (fun inf => set_did_i x (setd inf)) (forest_of t) /\
             reg t' = reg t /\
             idx t' = (if hc && wcb then idx_move_group (rdid s) x cur (idx t) else idx_add x n (idx_del (rdid s) n (idx t)))
       | None, Some _ =>
           exists t', get_tree w' ti = Some t' /\ forest_of t' = relabel (if wcb then cur else [n]) setd (forest_of t) /\
             reg t' = reg t /\ idx t' = idx t
       | None, None => w' = w
       end).
Proof.
  intros K. destruct (K w1 0 1 None (Some (DInt 77)) None [] w1 eq_refl) as (t & s & did' & Gt & Gn & Ed & _ & X).
  vm_compute in Gt. injection Gt as <-. vm_compute in Gn. injection Gn as <-. vm_compute in Ed. injection Ed as <-.
  cbv zeta in X. destruct X as [_ X]. vm_compute in X. destruct X as (t' & Gt' & F' & _). injection Gt' as <-. discriminate F'.
Qed.

(* C04/T1.v second model: writes garbage into the node *)
Definition garbage (i : info) : info := I 777 777 777 false [] (DInt 777) (i_kind i) (i_meta i).
Definition bad2 (w : world) (ti n : nat) (d : option dat) (e : option did) (wc : option bool) : res * world :=
  match get_tree w ti with
  | None => (Err EModel, w)
  | Some t => match get_node n (forest_of t) with
              | None => (Err EModel, w)
              | Some _ => (Ok [], put_tree w ti (set_forest t (relabel [n] garbage (forest_of t))))
              end
  end.
Theorem garbage_set_data_excluded :
  ~ (forall w ti n x wc r w' t s, WFw w -> get_tree w ti = Some t -> get_node n (forest_of t) = Some s ->
       x <> rdid s -> bad2 w ti n None (Some x) wc = (Ok r, w') ->
       exists t', get_tree w' ti = Some t' /\ did_of n (forest_of t') = Some x /\
                  In n (lk_find_all_did t' x) /\ ~ In n (lk_find_all_did t' (rdid s))).
Proof.
  intros K. assert (W : WFw w1) by (apply wf_world_b_WFw; vm_compute; reflexivity).
  destruct (K w1 0 1 (DInt 77) None [] (snd (bad2 w1 0 1 None (Some (DInt 77)) None)) _ _ W eq_refl eq_refl) as (t' & Gt' & Dn & _); [vm_compute; discriminate|reflexivity|].
  vm_compute in Gt'. injection Gt' as <-. vm_compute in Dn. discriminate.
Qed.

(* ---- C03/T2.v: from_dict that swallows nested errors and always answers Ok ---- *)
Fixpoint fdi_bad (ti p : nat) (it : ditem) (w : world) {struct it} : res * world :=
  match it with
  | DI d e ch =>
      match op_add w ti p d e None BNone with
      | (Ok [n], w1) =>
          (fix go (l : list ditem) (w : world) {struct l} : res * world :=
             match l with
             | [] => (Ok [], w)
             | x :: l' => go l' (snd (fdi_bad ti n x w))
             end) ch w1
      | (Ok _, w1) => (Err EModel, w1)
      | (Err x, w1) => (Err x, w1)
      end
  end.
Fixpoint fdis_bad (ti p : nat) (l : list ditem) (w : world) : res * world :=
  match l with
  | [] => (Ok [], w)
  | x :: l' => match fdi_bad ti p x w with
               | (Ok _, w2) => fdis_bad ti p l' w2
               | err => err
               end
  end.
Definition op_from_dict_bad (w : world) (ti p : nat) (items : list ditem) : res * world :=
  (Ok [], snd (fdis_bad ti p items w)).

(* the statement of C03_from_dict_duplicate_refused is FALSE for it *)
Theorem swallowing_from_dict_excluded :
  ~ (forall w ti p x mid d e ch rest t r w2 id,
       WFw w -> get_tree w ti = Some t -> children_of p (forest_of t) = Some [] ->
       from_dict_items ti p (x :: mid) w = (Ok r, w2) ->
       item_did t x = Some id -> (match e with Some y => Some y | None => calc_id (calc t) d end) = Some id ->
       fst (op_from_dict_bad w ti p (x :: mid ++ DI d e ch :: rest)) = Err EUnique /\
       trees (snd (op_from_dict_bad w ti p (x :: mid ++ DI d e ch :: rest))) = trees w).
Proof.
  intros K. assert (W : WFw w1) by (apply wf_world_b_WFw; vm_compute; reflexivity).
  destruct (K w1 0 1 (DI (dd 7) None []) [] (dd 7) None [] [] _ _ _ (DInt 7) W eq_refl eq_refl eq_refl eq_refl eq_refl) as [E _].
  discriminate E.
Qed.

(* the nested case of the audit (T2.v: [DI 5 [DI 7; DI 7]] accepted by the swallowing model): the statement of
   C03_from_dict_ok_dup_free is FALSE for the swallowing model *)
From NT Require Import FromDictDup.
Theorem swallowing_nested_excluded :
  ~ (forall w ti p items r w', WFw w -> op_from_dict_bad w ti p items = (Ok r, w') ->
       exists t, get_tree w ti = Some t /\ dup_free (calc t) items).
Proof.
  intros K. assert (W : WFw w1) by (apply wf_world_b_WFw; vm_compute; reflexivity).
  destruct (K w1 0 1 [DI (dd 5) None [DI (dd 7) None []; DI (dd 7) None []]] _ _ W eq_refl) as (t & Gt & H).
  inversion H as [l N Kk]; subst. specialize (Kk _ (or_introl eq_refl)). cbn [item_kids] in Kk.
  inversion Kk as [l' N' _]; subst. vm_compute in Gt. injection Gt as <-. cbn in N'. inversion N' as [|? ? Hn _]; subst. apply Hn. now left.
Qed.
Print Assumptions swallowing_nested_excluded.
